//! C17 executor: interprets a rendered call sequence against the real C API (`#[no_mangle] extern "C"`
//! functions of cargo feature `c-api`) with a handle table, the result-struct / string / misuse
//! oracles, the shadow model of host-provided values and the H1 stale-handle monitor.
//! All mutable state sits behind `RefCell`s and is reached through `&Exe`, because native callbacks
//! re-enter the executor while an outer API call is still in progress; no `RefCell` borrow is ever
//! held across an API call.

use serde_json::Value;
use std::cell::{Cell, RefCell};
use std::collections::BTreeMap;
use std::ffi::{c_char, c_void, CStr, CString};
use std::ptr;
use tsrun::ffi::{
    TsRunConsoleFn, TsRunContext, TsRunGcStats, TsRunNativeFn, TsRunOrderResponse, TsRunResult,
    TsRunStepResult, TsRunType, TsRunValue, TsRunValueResult,
};

// ---------------------------------------------------------------------------------------------
// regexp provider mirror types (the originals live in a private module of tsrun::ffi)
// ---------------------------------------------------------------------------------------------
#[repr(C)]
#[derive(Clone, Copy)]
pub struct RxCapture {
    pub start: isize,
    pub end: isize,
}
#[repr(C)]
pub struct RxMatch {
    pub start: usize,
    pub end: usize,
    pub captures: *mut RxCapture,
    pub capture_count: usize,
}
pub type RxCompile = extern "C" fn(*mut c_void, *const c_char, *const c_char, *mut *const c_char) -> *mut c_void;
pub type RxIsMatch = extern "C" fn(*mut c_void, *mut c_void, *const c_char, usize, *mut *const c_char) -> i32;
pub type RxFind = extern "C" fn(*mut c_void, *mut c_void, *const c_char, usize, usize, *mut RxMatch, *mut *const c_char) -> i32;
pub type RxFree = extern "C" fn(*mut c_void, *mut c_void);
pub type RxFreeCaps = extern "C" fn(*mut c_void, *mut RxCapture, usize);
#[repr(C)]
pub struct RxCallbacks {
    pub compile: RxCompile,
    pub is_match: RxIsMatch,
    pub find: RxFind,
    pub free: RxFree,
    pub free_captures: Option<RxFreeCaps>,
    pub userdata: *mut c_void,
}

#[allow(clashing_extern_declarations, improper_ctypes)]
extern "C" {
    pub fn tsrun_version() -> *const c_char;
    pub fn tsrun_new() -> *mut TsRunContext;
    pub fn tsrun_free(ctx: *mut TsRunContext);
    pub fn tsrun_set_console(ctx: *mut TsRunContext, func: Option<TsRunConsoleFn>, userdata: *mut c_void) -> TsRunResult;
    pub fn tsrun_prepare(ctx: *mut TsRunContext, code: *const c_char, path: *const c_char) -> TsRunResult;
    pub fn tsrun_step(out: *mut TsRunStepResult, ctx: *mut TsRunContext);
    pub fn tsrun_run(out: *mut TsRunStepResult, ctx: *mut TsRunContext);
    pub fn tsrun_step_result_free(r: *mut TsRunStepResult);
    pub fn tsrun_provide_module(ctx: *mut TsRunContext, path: *const c_char, code: *const c_char) -> TsRunResult;
    pub fn tsrun_fulfill_orders(ctx: *mut TsRunContext, responses: *const TsRunOrderResponse, count: usize) -> TsRunResult;
    pub fn tsrun_create_pending_order(ctx: *mut TsRunContext, payload: *mut TsRunValue, id_out: *mut u64) -> TsRunValueResult;
    pub fn tsrun_create_order_promise(ctx: *mut TsRunContext, id: u64) -> TsRunValueResult;
    pub fn tsrun_resolve_promise(ctx: *mut TsRunContext, promise: *mut TsRunValue, value: *mut TsRunValue) -> TsRunResult;
    pub fn tsrun_reject_promise(ctx: *mut TsRunContext, promise: *mut TsRunValue, error: *const c_char) -> TsRunResult;
    pub fn tsrun_typeof(v: *const TsRunValue) -> TsRunType;
    pub fn tsrun_is_undefined(v: *const TsRunValue) -> bool;
    pub fn tsrun_is_null(v: *const TsRunValue) -> bool;
    pub fn tsrun_is_nullish(v: *const TsRunValue) -> bool;
    pub fn tsrun_is_boolean(v: *const TsRunValue) -> bool;
    pub fn tsrun_is_number(v: *const TsRunValue) -> bool;
    pub fn tsrun_is_string(v: *const TsRunValue) -> bool;
    pub fn tsrun_is_object(v: *const TsRunValue) -> bool;
    pub fn tsrun_is_array(v: *const TsRunValue) -> bool;
    pub fn tsrun_is_function(v: *const TsRunValue) -> bool;
    pub fn tsrun_get_bool(v: *const TsRunValue) -> bool;
    pub fn tsrun_get_number(v: *const TsRunValue) -> f64;
    pub fn tsrun_get_string(v: *const TsRunValue) -> *const c_char;
    pub fn tsrun_get_string_len(v: *const TsRunValue) -> usize;
    pub fn tsrun_undefined(ctx: *mut TsRunContext) -> *mut TsRunValue;
    pub fn tsrun_null(ctx: *mut TsRunContext) -> *mut TsRunValue;
    pub fn tsrun_boolean(ctx: *mut TsRunContext, b: bool) -> *mut TsRunValue;
    pub fn tsrun_number(ctx: *mut TsRunContext, n: f64) -> *mut TsRunValue;
    pub fn tsrun_string(ctx: *mut TsRunContext, s: *const c_char) -> *mut TsRunValue;
    pub fn tsrun_string_len(ctx: *mut TsRunContext, s: *const c_char, len: usize) -> *mut TsRunValue;
    pub fn tsrun_json_parse(ctx: *mut TsRunContext, json: *const c_char) -> TsRunValueResult;
    pub fn tsrun_object_new(ctx: *mut TsRunContext) -> TsRunValueResult;
    pub fn tsrun_array_new(ctx: *mut TsRunContext) -> TsRunValueResult;
    pub fn tsrun_value_free(v: *mut TsRunValue);
    pub fn tsrun_value_dup(ctx: *mut TsRunContext, v: *const TsRunValue) -> *mut TsRunValue;
    pub fn tsrun_get(ctx: *mut TsRunContext, obj: *mut TsRunValue, key: *const c_char) -> TsRunValueResult;
    pub fn tsrun_set(ctx: *mut TsRunContext, obj: *mut TsRunValue, key: *const c_char, val: *mut TsRunValue) -> TsRunResult;
    pub fn tsrun_has(ctx: *mut TsRunContext, obj: *mut TsRunValue, key: *const c_char) -> bool;
    pub fn tsrun_delete(ctx: *mut TsRunContext, obj: *mut TsRunValue, key: *const c_char) -> TsRunResult;
    pub fn tsrun_keys(ctx: *mut TsRunContext, obj: *mut TsRunValue, count_out: *mut usize) -> *mut *mut c_char;
    pub fn tsrun_free_strings(strings: *mut *mut c_char, count: usize);
    pub fn tsrun_array_len(arr: *const TsRunValue) -> usize;
    pub fn tsrun_array_get(ctx: *mut TsRunContext, arr: *mut TsRunValue, index: usize) -> TsRunValueResult;
    pub fn tsrun_array_set(ctx: *mut TsRunContext, arr: *mut TsRunValue, index: usize, val: *mut TsRunValue) -> TsRunResult;
    pub fn tsrun_array_push(ctx: *mut TsRunContext, arr: *mut TsRunValue, val: *mut TsRunValue) -> TsRunResult;
    pub fn tsrun_call(ctx: *mut TsRunContext, func: *mut TsRunValue, this_arg: *mut TsRunValue, args: *mut *mut TsRunValue, argc: usize) -> TsRunValueResult;
    pub fn tsrun_call_method(ctx: *mut TsRunContext, obj: *mut TsRunValue, method: *const c_char, args: *mut *mut TsRunValue, argc: usize) -> TsRunValueResult;
    pub fn tsrun_get_global(ctx: *mut TsRunContext, name: *const c_char) -> TsRunValueResult;
    pub fn tsrun_set_global(ctx: *mut TsRunContext, name: *const c_char, val: *mut TsRunValue) -> TsRunResult;
    pub fn tsrun_get_export(ctx: *mut TsRunContext, name: *const c_char) -> TsRunValueResult;
    pub fn tsrun_get_export_names(ctx: *mut TsRunContext, count_out: *mut usize) -> *mut *mut c_char;
    pub fn tsrun_native_function(ctx: *mut TsRunContext, name: *const c_char, func: TsRunNativeFn, arity: usize, userdata: *mut c_void) -> TsRunValueResult;
    pub fn tsrun_json_stringify(ctx: *mut TsRunContext, val: *mut TsRunValue) -> *mut c_char;
    pub fn tsrun_free_string(s: *mut c_char);
    pub fn tsrun_internal_module_new(specifier: *const c_char) -> *mut c_void;
    pub fn tsrun_internal_module_add_function(module: *mut c_void, name: *const c_char, func: TsRunNativeFn, arity: usize, userdata: *mut c_void);
    pub fn tsrun_internal_module_add_value(module: *mut c_void, name: *const c_char, value: *mut TsRunValue);
    pub fn tsrun_register_internal_module(ctx: *mut TsRunContext, module: *mut c_void) -> TsRunResult;
    pub fn tsrun_set_regexp_provider(ctx: *mut TsRunContext, callbacks: *const RxCallbacks) -> TsRunResult;
    pub fn tsrun_gc_stats(ctx: *mut TsRunContext) -> TsRunGcStats;
}

/// every exported function, for the call histogram
pub const ALL_FUNCTIONS: [&str; 64] = [
    "tsrun_array_get", "tsrun_array_len", "tsrun_array_new", "tsrun_array_push", "tsrun_array_set", "tsrun_boolean", "tsrun_call",
    "tsrun_call_method", "tsrun_create_order_promise", "tsrun_create_pending_order", "tsrun_delete", "tsrun_free", "tsrun_free_string",
    "tsrun_free_strings", "tsrun_fulfill_orders", "tsrun_gc_stats", "tsrun_get", "tsrun_get_bool", "tsrun_get_export",
    "tsrun_get_export_names", "tsrun_get_global", "tsrun_get_number", "tsrun_get_string", "tsrun_get_string_len", "tsrun_has",
    "tsrun_internal_module_add_function", "tsrun_internal_module_add_value", "tsrun_internal_module_new", "tsrun_is_array",
    "tsrun_is_boolean", "tsrun_is_function", "tsrun_is_null", "tsrun_is_nullish", "tsrun_is_number", "tsrun_is_object", "tsrun_is_string",
    "tsrun_is_undefined", "tsrun_json_parse", "tsrun_json_stringify", "tsrun_keys", "tsrun_native_function", "tsrun_new", "tsrun_null",
    "tsrun_number", "tsrun_object_new", "tsrun_prepare", "tsrun_provide_module", "tsrun_register_internal_module", "tsrun_reject_promise",
    "tsrun_resolve_promise", "tsrun_run", "tsrun_set", "tsrun_set_console", "tsrun_set_global", "tsrun_set_regexp_provider", "tsrun_step",
    "tsrun_step_result_free", "tsrun_string", "tsrun_string_len", "tsrun_typeof", "tsrun_undefined", "tsrun_value_dup", "tsrun_value_free",
    "tsrun_version",
];

// ---------------------------------------------------------------------------------------------
// fixed argument tables (ops carry indices; -1 = NULL pointer, -2 = bytes that are not UTF-8)
// ---------------------------------------------------------------------------------------------
pub const KEYS: [&str; 16] = ["a", "b", "x", "tag", "0", "1", "k", "list", "né", "length", "__proto__", "toString", "then", "f", "", "deep"];
pub const GLOBALS: [&str; 14] = ["h0", "h1", "h2", "h3", "nf0", "nf1", "nfp", "hp0", "__r0", "__r1", "JSON", "globalThis", "nosuch", "Object"];
pub const METHODS: [&str; 10] = ["push", "toString", "f", "then", "map", "join", "hasOwnProperty", "nf", "slice", "nosuch"];
pub const EXPORTS: [&str; 5] = ["out", "fexp", "default", "nosuch", "dv"];
pub const STRS: [&str; 8] = ["", "a", "hello", "né ✓ 𝒳", "with \"quotes\" and \\", "x\ty\n", "0", "a fairly long string that does not fit into a small buffer ........................................"];
pub const NUMS: [f64; 10] = [0.0, 1.0, -1.0, 0.5, 42.0, 1e21, -0.0, f64::NAN, f64::INFINITY, 9007199254740993.0];
pub const ERRS: [&str; 3] = ["host says no", "é error", ""];
pub const JSONS: [&str; 12] = [
    "{}",
    "[]",
    "1",
    "\"s\"",
    "null",
    "{\"a\":1,\"b\":[1,2,{\"c\":\"é\"}],\"tag\":\"t\"}",
    "[1,[2,[3,[4]]],{\"k\":null}]",
    "{\"list\":[{\"x\":1},{\"x\":2},{\"x\":3}],\"deep\":{\"deep\":{\"deep\":{}}}}",
    "{\"a\":",
    "[1,2",
    "@BIG",
    "@NEST",
];
pub const MOD_SPECS: [&str; 4] = ["host:m0", "host:m1", "tsrun:host", "./dep0"];
pub const MOD_NAMES: [&str; 5] = ["f0", "v0", "f1", "default", "né"];
pub const PATHS: [&str; 5] = ["/main.ts", "main.ts", "/a/b/../m.ts", "/dep0.ts", "/dep1.ts"];
pub const NOT_UTF8: &[u8] = b"\xff\xfe\x80bad\0";

pub fn big_json() -> String {
    let mut s = String::from("[");
    for i in 0..130 {
        if i > 0 {
            s.push(',');
        }
        s.push_str("{\"i\":");
        s.push_str(&i.to_string());
        s.push('}');
    }
    s.push(']');
    s
}
pub fn nest_json() -> String {
    let mut s = String::new();
    for _ in 0..140 {
        s.push('[');
    }
    for _ in 0..140 {
        s.push(']');
    }
    s
}

/// A C string argument: NULL, invalid bytes, or an owned CString (kept alive by the caller)
pub enum CArg {
    Null,
    Bad,
    S(CString),
}
impl CArg {
    pub fn ptr(&self) -> *const c_char {
        match self {
            CArg::Null => ptr::null(),
            CArg::Bad => NOT_UTF8.as_ptr() as *const c_char,
            CArg::S(s) => s.as_ptr(),
        }
    }
    pub fn valid(&self) -> bool {
        matches!(self, CArg::S(_))
    }
    pub fn from_table(t: &[&str], idx: i64) -> CArg {
        match idx {
            -1 => CArg::Null,
            -2 => CArg::Bad,
            i => CArg::S(CString::new(t[(i.max(0) as usize) % t.len()]).unwrap_or_default()),
        }
    }
    pub fn text(s: &str) -> CArg {
        match CString::new(s) {
            Ok(c) => CArg::S(c),
            Err(_) => CArg::S(CString::default()),
        }
    }
    pub fn as_str(&self) -> Option<&str> {
        match self {
            CArg::S(s) => s.to_str().ok(),
            _ => None,
        }
    }
}

// ---------------------------------------------------------------------------------------------
// handle table
// ---------------------------------------------------------------------------------------------
#[derive(Clone, Copy, PartialEq, Eq, Debug)]
pub enum Kind {
    Undef,
    Null,
    Bool,
    Num,
    Str,
    Sym,
    Obj,
    Arr,
    Func,
}
#[derive(Clone, Copy, PartialEq, Eq, Debug)]
pub enum Want {
    Any,
    Object, // any object incl. arrays and functions
    Array,
    Function,
    Promise,
    Str,
}
#[derive(Clone, Copy, PartialEq, Eq, Debug)]
pub enum St {
    Live,
    Freed,
    Moved,
}
pub struct ValSlot {
    pub ptr: *mut TsRunValue,
    pub ctx: usize,
    pub st: St,
    /// owned by the context / the trampoline: never freed by the host
    pub borrowed: bool,
    pub kind: Kind,
    pub promise: bool,
    pub marker: bool,
    /// callback frame that owns a temporary (this/args); the slot dies when the frame returns
    pub frame: u32,
    /// frame in which the handle was created (0 = top level)
    pub born: u32,
    /// text of a string value the host built itself
    pub text: Option<String>,
    /// callback script of a handle made by tsrun_native_function
    pub native: Option<usize>,
}
pub struct CtxSlot {
    pub ptr: *mut TsRunContext,
    pub alive: bool,
    /// (pointer, snapshot) of context-owned strings that must stay intact until the next call on this context
    pub borrowed: Vec<(*const c_char, Vec<u8>)>,
    /// pending orders reported and not yet answered: (id, payload value slot, tag)
    pub pending: Vec<(u64, usize)>,
    /// resolved paths requested and not yet provided
    pub wanted: Vec<String>,
    pub expect_globals: BTreeMap<String, String>,
    pub expect_props: BTreeMap<(usize, String), String>,
    pub last_order_id: u64,
    pub stepping: u32,
}
pub struct StepSlot {
    pub b: *mut TsRunStepResult,
    pub ctx: usize,
    pub freed: bool,
}
pub struct StrSlot {
    pub ptr: *mut c_char,
    pub snap: Vec<u8>,
    pub freed: bool,
}
pub struct ArrSlot {
    pub ptr: *mut *mut c_char,
    pub count: usize,
    pub freed: bool,
}
pub struct ModSlot {
    pub ptr: *mut c_void,
    pub ctx: Option<usize>,
    pub used: bool,
}

#[derive(Default)]
pub struct Flags {
    pub had_step: bool,
    pub had_release: bool,
    pub obj_crossed: bool,
    pub tags: BTreeMap<&'static str, u64>,
}

pub struct Exe {
    pub ctxs: RefCell<Vec<CtxSlot>>,
    pub vals: RefCell<Vec<ValSlot>>,
    pub steps: RefCell<Vec<StepSlot>>,
    pub strs: RefCell<Vec<StrSlot>>,
    pub arrs: RefCell<Vec<ArrSlot>>,
    pub mods: RefCell<Vec<ModSlot>>,
    pub cbs: Vec<Value>,
    pub hist: RefCell<BTreeMap<&'static str, u64>>,
    pub flags: RefCell<Flags>,
    pub fail: RefCell<Option<(String, String)>>,
    pub depth: Cell<u32>,
    pub pins: RefCell<Vec<usize>>,
    /// contexts of the native callback frames in progress (innermost last)
    pub cb_ctx: RefCell<Vec<usize>>,
    pub cur_op: Cell<usize>,
    pub cur_name: RefCell<String>,
    pub trace: bool,
    pub stale0: Cell<u64>,
    pub shadow_checks: Cell<u64>,
    pub cb_calls: Cell<u64>,
    pub console_calls: Cell<u64>,
    pub rx_calls: Cell<u64>,
    pub skipped: Cell<u64>,
    /// H5 override in force between operations (0 = none)
    pub pressure: Cell<usize>,
    /// a direct tsrun_call of a native-function handle is in flight: (callback depth, script) that must be entered
    pub expect_cb: Cell<Option<(u32, usize)>>,
}

thread_local! {
    pub static CUR: Cell<*const Exe> = const { Cell::new(ptr::null()) };
}

/// Chain a panic hook (once per process) that makes a panic inside an API call identifiable: such a
/// panic cannot unwind through `extern "C"` and aborts the process; the message printed here is the
/// last stderr line the supervisor sees.
pub fn install_hook_once() {
    use std::sync::Once;
    static ONCE: Once = Once::new();
    ONCE.call_once(|| {
        let prev = std::panic::take_hook();
        std::panic::set_hook(Box::new(move |info| {
            prev(info);
            let cur = CUR.with(|c| c.get());
            if !cur.is_null() {
                let msg = if let Some(s) = info.payload().downcast_ref::<&str>() {
                    s.to_string()
                } else if let Some(s) = info.payload().downcast_ref::<String>() {
                    s.clone()
                } else {
                    "<non-string>".into()
                };
                let loc = info.location().map(|l| format!("{}:{}", l.file().rsplit("/src/").next().unwrap_or(""), l.line())).unwrap_or_default();
                let e = unsafe { &*cur };
                let name = e.cur_name.try_borrow().map(|s| s.clone()).unwrap_or_default();
                let line = format!("C17 panic inside the C API (op #{} {}): {} @ {}", e.cur_op.get(), name, msg.replace('\n', " "), loc);
                eprintln!("{}", line);
                // the process is lost anyway (abort on unwinding out of extern "C"); die with our line last
                std::process::abort();
            }
        }));
    });
}

pub fn read_cstr(p: *const c_char) -> Result<Vec<u8>, String> {
    if p.is_null() {
        return Err("NULL".into());
    }
    let b = unsafe { CStr::from_ptr(p) }.to_bytes().to_vec();
    if std::str::from_utf8(&b).is_err() {
        return Err(format!("not UTF-8: {:?}", String::from_utf8_lossy(&b)));
    }
    Ok(b)
}

impl Exe {
    pub fn new(cbs: Vec<Value>, trace: bool) -> Exe {
        Exe {
            ctxs: RefCell::new(vec![]),
            vals: RefCell::new(vec![]),
            steps: RefCell::new(vec![]),
            strs: RefCell::new(vec![]),
            arrs: RefCell::new(vec![]),
            mods: RefCell::new(vec![]),
            cbs,
            hist: RefCell::new(BTreeMap::new()),
            flags: RefCell::new(Flags::default()),
            fail: RefCell::new(None),
            depth: Cell::new(0),
            pins: RefCell::new(vec![]),
            cb_ctx: RefCell::new(vec![]),
            cur_op: Cell::new(0),
            cur_name: RefCell::new(String::new()),
            trace,
            stale0: Cell::new(0),
            shadow_checks: Cell::new(0),
            cb_calls: Cell::new(0),
            console_calls: Cell::new(0),
            rx_calls: Cell::new(0),
            skipped: Cell::new(0),
            pressure: Cell::new(0),
            expect_cb: Cell::new(None),
        }
    }
    pub fn failed(&self) -> bool {
        self.fail.borrow().is_some()
    }
    pub fn set_fail(&self, sig: &str, msg: String) {
        let mut f = self.fail.borrow_mut();
        if f.is_none() {
            *f = Some((sig.to_string(), format!("op #{} {}: {}", self.cur_op.get(), self.cur_name.borrow(), msg)));
        }
    }
    pub fn tag(&self, t: &'static str) {
        *self.flags.borrow_mut().tags.entry(t).or_insert(0) += 1;
    }
    /// count a call of an exported function and validate the context-owned strings of `ctx` that
    /// were handed out by the previous call (their documented lifetime ends with this call)
    pub fn pre(&self, name: &'static str, ctx: Option<usize>) {
        *self.hist.borrow_mut().entry(name).or_insert(0) += 1;
        if let Some(ci) = ctx {
            self.check_borrowed(ci);
        }
    }
    pub fn check_borrowed(&self, ci: usize) {
        let list = std::mem::take(&mut self.ctxs.borrow_mut()[ci].borrowed);
        for (p, snap) in list {
            match read_cstr(p) {
                Ok(b) if b == snap => {}
                Ok(b) => self.set_fail("c17:borrowed-string-changed", format!("a context-owned string changed before the next call on its context: was {:?}, now {:?}", String::from_utf8_lossy(&snap), String::from_utf8_lossy(&b))),
                Err(e) => self.set_fail("c17:borrowed-string-invalid", format!("a context-owned string became invalid before the next call on its context: {}", e)),
            }
        }
    }
    /// validate a context-owned string now and remember it for the check at the next call
    pub fn borrowed_str(&self, ci: Option<usize>, p: *const c_char, what: &str) -> Option<String> {
        match read_cstr(p) {
            Ok(b) => {
                if let Some(ci) = ci {
                    self.ctxs.borrow_mut()[ci].borrowed.push((p, b.clone()));
                }
                let text = String::from_utf8_lossy(&b).to_string();
                self.check_internal_error(&text, what);
                Some(text)
            }
            Err(e) => {
                self.set_fail("c17:string-invalid", format!("{} is not a valid NUL-terminated UTF-8 string: {}", what, e));
                None
            }
        }
    }
    /// Every native function of a case is registered through the API and only called while the API is
    /// driving the interpreter (tsrun_step/run/call/call_method): the trampoline's "lost my context /
    /// my id" errors can never be the answer to a legitimate call.
    pub fn check_internal_error(&self, text: &str, what: &str) {
        if text.contains("Native callback called without") || text.contains("Native callback not found") {
            self.set_fail("c17:native-call-lost-context", format!("a legitimate call of a registered native function failed inside the API ({}): {:?}", what, text));
        }
    }
    pub fn live_ctx(&self, sel: i64) -> Option<usize> {
        let c = self.ctxs.borrow();
        let live: Vec<usize> = (0..c.len()).filter(|i| c[*i].alive).collect();
        if live.is_empty() || sel < 0 {
            None
        } else {
            Some(live[(sel as usize) % live.len()])
        }
    }
    pub fn ctx_ptr(&self, ci: Option<usize>) -> *mut TsRunContext {
        match ci {
            Some(i) => self.ctxs.borrow()[i].ptr,
            None => ptr::null_mut(),
        }
    }
}

pub fn want_matches(w: Want, v: &ValSlot) -> bool {
    match w {
        Want::Any => true,
        Want::Object => matches!(v.kind, Kind::Obj | Kind::Arr | Kind::Func),
        Want::Array => v.kind == Kind::Arr,
        Want::Function => v.kind == Kind::Func,
        Want::Promise => v.promise,
        Want::Str => v.kind == Kind::Str,
    }
}
