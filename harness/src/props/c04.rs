//! C04 — TypeScript's run-time constructs (enums, namespaces, constructor parameter properties,
//! abstract classes) behave as the JavaScript tsc is specified to emit for them.
//!
//! `c04gen.rs` builds declarations from a small AST and renders every program twice: as TypeScript and
//! as the documented emit (the desugarer). Oracle: tsrun(TS) == node(emit) == tsrun(emit).

use crate::core::{Ctx, Exec, Plan, Property, Tier};
use crate::engine::{run_simple, RunOpts};
use crate::progen::SHOW_PRELUDE;
use crate::props::c01::node_view;
use crate::tape::Tape;
use serde_json::{json, Value};

pub struct C04Prop;
pub static C04: C04Prop = C04Prop;

/// helpers shared by both renderings (plain JavaScript)
pub const C04_PRELUDE: &str = r#"function __n(x) { return x; }
function __keys(o) { var r = []; for (var k in o) r.push(k); return r; }
"#;

fn view(src: &str) -> (String, Vec<String>, String) {
    let out = run_simple(src, &RunOpts { step_budget: 2_000_000, ..Default::default() });
    let end = if let Some(v) = out.end.strip_prefix("complete:str:") {
        format!("ok:{}", v)
    } else if let Some(c) = out.end.strip_prefix("error:") {
        format!("err:{}", c)
    } else {
        out.end.clone()
    };
    (end, out.log, out.err_text)
}

fn first_diff(a: &[String], b: &[String]) -> usize {
    a.iter().zip(b.iter()).position(|(x, y)| x != y).unwrap_or(a.len().min(b.len()))
}

fn line_id(l: Option<&String>) -> String {
    // trace lines look like "t<id>:<value>"; the id names the use site
    match l {
        Some(s) => s.split(|c| c == ':' || c == '!').next().unwrap_or("").chars().take(12).collect(),
        None => "<end>".into(),
    }
}

fn full(case: &Value, key: &str, body_key: &str) -> String {
    match case[body_key].as_str() {
        Some(b) => format!("{}{}{}", SHOW_PRELUDE, C04_PRELUDE, b),
        None => case[key].as_str().unwrap_or("").to_string(),
    }
}

impl Property for C04Prop {
    fn id(&self) -> &'static str {
        "C04"
    }
    fn rule(&self) -> String {
        "A program = canonical printer prelude + a sequence of DECLARATIONS built from a small AST (enum blocks with auto / numeric-literal incl. negative, fractional, large / constant-expression incl. references to earlier members and to other enums / computed non-constant numeric / string members, duplicate values, quoted non-identifier names, repeated `enum E` blocks, const enums, enums local to functions, blocks and loop bodies, sibling scopes (blocks, switch-case blocks, loop bodies, if/else branches, namespace blocks, at top level or in a function body) that each declare an unrelated enum of the same name, with and without an outer enum of that name; namespace trees with nested, dotted and merged blocks, exported const/let/var/function/class/enum/namespace, non-exported locals, references to exports of the same block, of earlier blocks and of enclosing namespaces, mutation of exported variables from inside and outside, namespaces merged with a function, class or enum; classes with constructor parameter properties in every modifier combination, defaults, plain and rest parameters mixed in, with and without extends/super, abstract classes with abstract members and concrete subclasses) interleaved with USES (forward/reverse lookups, Object.keys/values/entries/getOwnPropertyNames, for-in, JSON.stringify, typeof, identity, in/hasOwnProperty, spread, descriptor reads, passing the object to functions, writes/deletes/defineProperty/freeze through `as any`, calls of namespace functions, instance creation and own-property order, instanceof, prototype contents), optionally wrapped around a progen core program (clean profile). Every program is rendered twice from the same AST: as TypeScript and as the JavaScript tsc is specified to emit (DESIGN Appendix B). Oracle: tsrun(TypeScript) must give the same printed completion value, console lines and error class as node(emit) (reference engine) and as tsrun(emit) (self-differential). Productions gated by an open finding are not emitted (counted). Non-trivial: some declaration has >= 3 members/exports/parameter properties AND the program performs a reverse lookup, an enumeration of own keys, or merges a repeated declaration, and the TypeScript program was not rejected. Distinct = distinct TypeScript text.".into()
    }
    fn assumptions(&self) -> Vec<String> {
        vec![
            "node (v20) implements ECMAScript for the emitted JavaScript".into(),
            "the desugarer in harness/src/props/c04gen.rs implements tsc's documented emit (ES2015+ target, no preserveConstEnums, constants folded with IEEE doubles); there is no tsc in the sandbox to confirm, so only handbook-documented constructs whose emit does not depend on the type checker or on compiler options are generated".into(),
            "canonical printer __show (typeof/Array.isArray/hasOwnProperty.call/Object.keys/JSON.stringify(string)/String(number))".into(),
        ]
    }
    fn plan(&self, tier: Tier) -> Plan {
        Plan { shards: 16, cases_per_shard: tier.pick(1500, 30000), tape_len: tier.pick(700, 1400), watchdog_s: tier.pick(900, 7200) }
    }
    fn generate(&self, tape: &mut Tape, ctx: &Ctx) -> Value {
        crate::props::c04gen::generate(tape, ctx)
    }
    fn execute(&self, case: &Value, ctx: &mut Ctx) -> Exec {
        let ts = full(case, "ts", "ts_body");
        let js = full(case, "js", "js_body");
        let tags: Vec<String> = case["tags"].as_array().map(|a| a.iter().filter_map(|x| x.as_str().map(|s| s.to_string())).collect()).unwrap_or_default();
        let mut counters: Vec<(String, u64)> = vec![];
        if let Some(ex) = case["excluded"].as_object() {
            for (k, v) in ex {
                counters.push((format!("excluded_by_gate:{}", k), v.as_u64().unwrap_or(0)));
            }
        }
        if let Some(ex) = case["counts"].as_object() {
            for (k, v) in ex {
                counters.push((k.clone(), v.as_u64().unwrap_or(0)));
            }
        }
        let (t_end, t_log, t_err) = view(&ts);
        let (j_end, j_log, j_err) = view(&js);
        if t_end == "budget" || j_end == "budget" {
            return Exec::discard("tsrun step budget");
        }
        // the register allocator gives up on long scripts (about 250 top-level call statements): a limit on
        // program size, which is property C10's subject, not a difference between a construct and its emit
        if t_end.contains("Too many registers") || j_end.contains("Too many registers") {
            return Exec::discard("outside the domain: register limit of the compiler (C10)");
        }
        let mut observed = json!({
            "tsrun_ts": {"end": t_end, "log": t_log, "err_text": t_err},
            "tsrun_emit": {"end": j_end, "log": j_log, "err_text": j_err},
        });
        let finish = |mut e: Exec, observed: Value, counters: Vec<(String, u64)>, tags: Vec<String>| {
            e.observed = observed;
            e.counters.extend(counters);
            e.tags = tags;
            e
        };
        if t_end.starts_with("panic:") {
            return finish(Exec::fail(format!("c04:{}", t_end), format!("tsrun panicked on the TypeScript program: {}", t_end)), observed, counters, tags);
        }
        // reference engine on the emit
        let mut node_side: Option<(String, Vec<String>)> = None;
        match ctx.node.run_script(&js) {
            None => counters.push(("no_reference_engine".into(), 1)),
            Some(reply) => {
                if reply["timeout"].as_bool() == Some(true) || reply["died"].as_bool() == Some(true) {
                    return Exec::discard("node timeout/died");
                }
                match node_view(&reply) {
                    Some(v) => node_side = Some(v),
                    None => return Exec::discard("node reply unreadable"),
                }
            }
        }
        if let Some((n_end, n_log)) = &node_side {
            observed["node_emit"] = json!({"end": n_end, "log": n_log});
            // (a SyntaxError raised at run time - JSON.parse, new RegExp - has trace lines before it or is
            // raised by tsrun for the emit as well; that one is compared like any other outcome)
            if n_end == "err:SyntaxError" && n_log.is_empty() && j_end != "err:SyntaxError" {
                // the desugarer produced JavaScript node rejects: a fault of the generator, never of tsrun
                if std::env::var("VERIF_C04_STRICT").is_ok() {
                    // development aid: shrink the generator fault like a violation
                    return finish(Exec::fail("c04:GENERATOR-FAULT emit rejected by node", "the desugarer produced JavaScript that node rejects"), observed, counters, tags);
                }
                let mut e = Exec::discard("generator fault: emitted JavaScript rejected by node");
                e.observed = observed;
                return e;
            }
            if &t_end != n_end || &t_log != n_log {
                let k = first_diff(&t_log, n_log);
                let self_agrees = t_end == j_end && t_log == j_log;
                let what = if t_end.starts_with("err:SyntaxError") {
                    format!("ts-rejected {}", t_err.chars().take(50).collect::<String>())
                } else if t_log != *n_log {
                    format!("log@{}", line_id(t_log.get(k).or(n_log.get(k))))
                } else {
                    "end".to_string()
                };
                let sig = if self_agrees { format!("c04:emit-on-tsrun-differs-from-node {}", what) } else { format!("c04:ts-vs-node {}", what) };
                let msg = format!(
                    "tsrun(TypeScript) and node(emit) disagree{}: tsrun end={:?} node end={:?}; first differing line: {:?} vs {:?}; tsrun error text {:?}",
                    if self_agrees { " (tsrun gives the same result for the emit: the JavaScript of the emit itself is evaluated differently)" } else { "" },
                    t_end.chars().take(160).collect::<String>(),
                    n_end.chars().take(160).collect::<String>(),
                    t_log.get(k),
                    n_log.get(k),
                    t_err.chars().take(160).collect::<String>()
                );
                return finish(Exec::fail(sig, msg), observed, counters, tags);
            }
            counters.push(("differential_vs_node".into(), 1));
        }
        if t_end != j_end || t_log != j_log {
            let k = first_diff(&t_log, &j_log);
            let what = if t_end.starts_with("err:SyntaxError") {
                format!("ts-rejected {}", t_err.chars().take(50).collect::<String>())
            } else if t_log != j_log {
                format!("log@{}", line_id(t_log.get(k).or(j_log.get(k))))
            } else {
                "end".to_string()
            };
            let msg = format!(
                "tsrun(TypeScript) and tsrun(emit) disagree: ts end={:?} emit end={:?}; first differing line: {:?} vs {:?}; error text {:?}",
                t_end.chars().take(160).collect::<String>(),
                j_end.chars().take(160).collect::<String>(),
                t_log.get(k),
                j_log.get(k),
                t_err.chars().take(160).collect::<String>()
            );
            return finish(Exec::fail(format!("c04:ts-vs-emit {}", what), msg), observed, counters, tags);
        }
        counters.push(("differential_self".into(), 1));
        let rejected = t_end.starts_with("err:SyntaxError");
        let nontrivial = case["nontrivial"].as_bool().unwrap_or(false) && !rejected;
        let small = json!({"end": t_end.chars().take(300).collect::<String>(), "lines": t_log.len(), "node": node_side.is_some()});
        finish(Exec::pass(nontrivial), small, counters, tags)
    }
}
