//! C08 — DSL of order-protocol programs, its renderer, and the LEDGER MODEL (reference semantics).
//!
//! The model is written from the documented protocol, not from the code:
//!  * `order(payload)` is a blocking syscall: the program stops, the order is handed to the host, the host's
//!    answer (value, error, or a promise) becomes the value of the call (docs of `order_syscall`);
//!  * `await p` on a pending promise stops the program until p is settled and the host steps again;
//!  * `Promise.all/race/any/allSettled`, `then`, `catch` follow the ECMAScript definitions (the winner of a
//!    race/any is decided by the order in which the host settles the inputs);
//!  * cancellations: a race that is decided by a later settlement cancels the order ids linked to the losing
//!    inputs (docs of `api::create_order_promise`), rejecting an order-linked promise signals its order id
//!    (tests/interpreter/orders.rs `test_promise_rejection_signals_cancelled_order`), `__cancelOrder__(id)`
//!    signals id. A race that is already decided when it is called MAY cancel its pending losers (optional).
//!
//! The model is re-executed from the start over the history of host actions after every step, so it needs no
//! coroutine machinery: `simulate(prog, sites, history, ids)`.

use serde_json::{json, Value};
use std::collections::BTreeMap;

// ------------------------------------------------------------------------------------------------
// DSL
// ------------------------------------------------------------------------------------------------
#[derive(Clone, Copy, Debug, PartialEq, Eq)]
pub enum Comb {
    All,
    Race,
    Any,
    AllSettled,
}
impl Comb {
    pub fn name(self) -> &'static str {
        match self {
            Comb::All => "all",
            Comb::Race => "race",
            Comb::Any => "any",
            Comb::AllSettled => "allSettled",
        }
    }
    pub fn parse(s: &str) -> Comb {
        match s {
            "race" => Comb::Race,
            "any" => Comb::Any,
            "allSettled" => Comb::AllSettled,
            _ => Comb::All,
        }
    }
}

#[derive(Clone, Debug)]
pub enum Stmt {
    /// vN = [await] order({k: site, ...[, w: __s(vW)]})
    Order { var: u32, site: u32, awaited: bool, with: Option<u32> },
    /// vN = await vS
    Await { var: u32, src: u32 },
    /// vN = [await] Promise.f([args])
    Comb { var: u32, f: Comb, args: Vec<u32>, awaited: bool },
    /// vN = [await] __p(vS).then(x => [x, "tN"])   /   .catch(e => "k" + __e(e))
    Then { var: u32, src: u32, catch: bool, awaited: bool },
    /// try { body } catch (e) { __t("cI", __e(e)); handler }
    Try { id: u32, body: Vec<Stmt>, handler: Vec<Stmt> },
    /// if (typeof vS === "number") { __cancelOrder__(vS); }
    Cancel { src: u32 },
    /// vN = __getOrderId__()
    GetId { var: u32 },
    /// vN = await fK()
    Call { var: u32, func: u32 },
}

#[derive(Clone, Debug)]
pub struct Func {
    pub id: u32,
    pub body: Vec<Stmt>,
    pub ret: Vec<u32>,
}

#[derive(Clone, Debug)]
pub struct Prog {
    /// main statements at module top level (true) or inside `async function main()` (false)
    pub toplevel: bool,
    pub funcs: Vec<Func>,
    pub main: Vec<Stmt>,
    pub ret: Vec<u32>,
    pub nvars: u32,
}

#[derive(Clone, Copy, Debug, PartialEq, Eq)]
pub enum Kind {
    Val,
    Obj,
    Err,
    PromPlain,
    PromLinked,
    IdEcho,
    /// the program creates the promise and passes its resolve/reject functions in the payload
    /// (`cb`, `cbr`); the host acknowledges the order and later calls one of them through
    /// `api::call_function`
    Callback,
}
impl Kind {
    pub fn name(self) -> &'static str {
        match self {
            Kind::Val => "val",
            Kind::Obj => "obj",
            Kind::Err => "err",
            Kind::PromPlain => "pp",
            Kind::PromLinked => "pl",
            Kind::IdEcho => "id",
            Kind::Callback => "cb",
        }
    }
    pub fn parse(s: &str) -> Kind {
        match s {
            "obj" => Kind::Obj,
            "err" => Kind::Err,
            "pp" => Kind::PromPlain,
            "pl" => Kind::PromLinked,
            "id" => Kind::IdEcho,
            "cb" => Kind::Callback,
            _ => Kind::Val,
        }
    }
    pub fn is_promise(self) -> bool {
        matches!(self, Kind::PromPlain | Kind::PromLinked | Kind::Callback)
    }
}

#[derive(Clone, Copy, Debug)]
pub struct Site {
    pub kind: Kind,
    /// for promise kinds: the host eventually resolves (true) or rejects (false) it
    pub resolve: bool,
}

pub type Sites = BTreeMap<u32, Site>;

fn u(v: &Value) -> u32 {
    v.as_u64().unwrap_or(0) as u32
}

pub fn stmts_to_json(ss: &[Stmt]) -> Value {
    Value::Array(ss.iter().map(stmt_to_json).collect())
}
pub fn stmt_to_json(s: &Stmt) -> Value {
    match s {
        Stmt::Order { var, site, awaited, with } => json!({"op": "order", "var": var, "site": site, "await": awaited, "with": with}),
        Stmt::Await { var, src } => json!({"op": "await", "var": var, "src": src}),
        Stmt::Comb { var, f, args, awaited } => json!({"op": "comb", "var": var, "fn": f.name(), "args": args, "await": awaited}),
        Stmt::Then { var, src, catch, awaited } => json!({"op": "then", "var": var, "src": src, "catch": catch, "await": awaited}),
        Stmt::Try { id, body, handler } => json!({"op": "try", "id": id, "body": stmts_to_json(body), "handler": stmts_to_json(handler)}),
        Stmt::Cancel { src } => json!({"op": "cancel", "src": src}),
        Stmt::GetId { var } => json!({"op": "getid", "var": var}),
        Stmt::Call { var, func } => json!({"op": "call", "var": var, "func": func}),
    }
}
pub fn stmts_from_json(v: &Value) -> Vec<Stmt> {
    v.as_array().map(|a| a.iter().filter_map(stmt_from_json).collect()).unwrap_or_default()
}
pub fn stmt_from_json(v: &Value) -> Option<Stmt> {
    let b = |k: &str| v[k].as_bool().unwrap_or(false);
    Some(match v["op"].as_str()? {
        "order" => Stmt::Order { var: u(&v["var"]), site: u(&v["site"]), awaited: b("await"), with: v["with"].as_u64().map(|x| x as u32) },
        "await" => Stmt::Await { var: u(&v["var"]), src: u(&v["src"]) },
        "comb" => Stmt::Comb { var: u(&v["var"]), f: Comb::parse(v["fn"].as_str().unwrap_or("all")), args: v["args"].as_array().map(|a| a.iter().map(u).collect()).unwrap_or_default(), awaited: b("await") },
        "then" => Stmt::Then { var: u(&v["var"]), src: u(&v["src"]), catch: b("catch"), awaited: b("await") },
        "try" => Stmt::Try { id: u(&v["id"]), body: stmts_from_json(&v["body"]), handler: stmts_from_json(&v["handler"]) },
        "cancel" => Stmt::Cancel { src: u(&v["src"]) },
        "getid" => Stmt::GetId { var: u(&v["var"]) },
        "call" => Stmt::Call { var: u(&v["var"]), func: u(&v["func"]) },
        _ => return None,
    })
}
pub fn prog_to_json(p: &Prog) -> Value {
    json!({
        "toplevel": p.toplevel,
        "nvars": p.nvars,
        "funcs": p.funcs.iter().map(|f| json!({"id": f.id, "body": stmts_to_json(&f.body), "ret": f.ret})).collect::<Vec<_>>(),
        "main": stmts_to_json(&p.main),
        "ret": p.ret,
    })
}
pub fn prog_from_json(v: &Value) -> Prog {
    let vars = |x: &Value| -> Vec<u32> { x.as_array().map(|a| a.iter().map(u).collect()).unwrap_or_default() };
    Prog {
        toplevel: v["toplevel"].as_bool().unwrap_or(false),
        nvars: u(&v["nvars"]),
        funcs: v["funcs"].as_array().map(|a| a.iter().map(|f| Func { id: u(&f["id"]), body: stmts_from_json(&f["body"]), ret: vars(&f["ret"]) }).collect()).unwrap_or_default(),
        main: stmts_from_json(&v["main"]),
        ret: vars(&v["ret"]),
    }
}
pub fn sites_to_json(s: &Sites) -> Value {
    let mut m = serde_json::Map::new();
    for (k, v) in s {
        m.insert(k.to_string(), json!({"kind": v.kind.name(), "settle": if v.resolve { "res" } else { "rej" }}));
    }
    Value::Object(m)
}
pub fn sites_from_json(v: &Value) -> Sites {
    let mut out = Sites::new();
    if let Some(m) = v.as_object() {
        for (k, s) in m {
            if let Ok(kk) = k.parse::<u32>() {
                out.insert(kk, Site { kind: Kind::parse(s["kind"].as_str().unwrap_or("val")), resolve: s["settle"].as_str() != Some("rej") });
            }
        }
    }
    out
}

// ------------------------------------------------------------------------------------------------
// Renderer
// ------------------------------------------------------------------------------------------------
pub const PRELUDE: &str = r#"function __e(e) {
  if (Array.isArray(e)) return "agg[" + e.map(__e).join(",") + "]";
  if (e && typeof e === "object" && Array.isArray(e.errors)) return "agg[" + e.errors.map(__e).join(",") + "]";
  const s = String(e);
  const i = s.indexOf("boom");
  return i >= 0 ? s.slice(i) : s;
}
function __s(v) {
  if (Array.isArray(v)) return "[" + v.map(__s).join(",") + "]";
  if (v && typeof v === "object") {
    if (typeof v.then === "function") return "[promise]";
    if (typeof v.status === "string") return v.status === "fulfilled" ? "F(" + __s(v.value) + ")" : v.status === "rejected" ? "R(" + __e(v.reason) + ")" : "?" + v.status;
    return JSON.stringify(v);
  }
  return String(v);
}
function __t(id, v) { console.log(id + ":" + __s(v)); }
function __p(v) { return (v && typeof v === "object" && typeof v.then === "function") ? v : Promise.resolve(v); }
"#;

/// Expected payload of the order issued at `site` (deep JSON equality is demanded); `w` is the rendering of
/// the `with` variable at issue time.
pub fn payload_json(site: u32, w: Option<&str>) -> Value {
    let mut p = json!({"k": site, "m": format!("m{}", site), "n": {"a": [site, site + 1], "s": format!("p{}", site)}});
    if let (Some(w), Some(m)) = (w, p.as_object_mut()) {
        m.insert("w".into(), json!(w));
    }
    p
}

fn render_stmts(ss: &[Stmt], sites: &Sites, ind: usize, out: &mut String) {
    let pad = "  ".repeat(ind);
    for s in ss {
        match s {
            Stmt::Order { var, site, awaited, with } => {
                let w = match with {
                    Some(x) => format!(", w: __s(v{})", x),
                    None => String::new(),
                };
                if sites.get(site).map(|x| x.kind) == Some(Kind::Callback) {
                    out.push_str(&format!(
                        "{pad}let r{var}, j{var}; const q{var} = new Promise((x, y) => {{ r{var} = x; j{var} = y; }});\n{pad}v{var} = {aw}(order({{k: {site}, m: \"m{site}\", n: {{a: [{site}, {s1}], s: \"p{site}\"}}{w}, cb: r{var}, cbr: j{var}}}), q{var}); __t(\"v{var}\", v{var});\n",
                        pad = pad,
                        var = var,
                        aw = if *awaited { "await " } else { "" },
                        site = site,
                        s1 = site + 1,
                        w = w
                    ));
                    continue;
                }
                out.push_str(&format!(
                    "{pad}v{var} = {aw}order({{k: {site}, m: \"m{site}\", n: {{a: [{site}, {s1}], s: \"p{site}\"}}{w}}}); __t(\"v{var}\", v{var});\n",
                    pad = pad,
                    var = var,
                    aw = if *awaited { "await " } else { "" },
                    site = site,
                    s1 = site + 1,
                    w = w
                ));
            }
            Stmt::Await { var, src } => out.push_str(&format!("{pad}v{var} = await v{src}; __t(\"v{var}\", v{var});\n", pad = pad, var = var, src = src)),
            Stmt::Comb { var, f, args, awaited } => {
                let a: Vec<String> = args.iter().map(|x| format!("v{}", x)).collect();
                out.push_str(&format!("{pad}v{var} = {aw}Promise.{f}([{a}]); __t(\"v{var}\", v{var});\n", pad = pad, var = var, aw = if *awaited { "await " } else { "" }, f = f.name(), a = a.join(", ")));
            }
            Stmt::Then { var, src, catch, awaited } => {
                let cb = if *catch { "catch((e) => \"k\" + __e(e))".to_string() } else { format!("then((x) => [x, \"t{}\"])", var) };
                out.push_str(&format!("{pad}v{var} = {aw}__p(v{src}).{cb}; __t(\"v{var}\", v{var});\n", pad = pad, var = var, aw = if *awaited { "await " } else { "" }, src = src, cb = cb));
            }
            Stmt::Try { id, body, handler } => {
                out.push_str(&format!("{}try {{\n", pad));
                render_stmts(body, sites, ind + 1, out);
                out.push_str(&format!("{}}} catch (e) {{\n{}  __t(\"c{}\", __e(e));\n", pad, pad, id));
                render_stmts(handler, sites, ind + 1, out);
                out.push_str(&format!("{}}}\n", pad));
            }
            Stmt::Cancel { src } => out.push_str(&format!("{pad}if (typeof v{src} === \"number\") {{ __cancelOrder__(v{src}); __t(\"x{src}\", \"cancel\"); }}\n", pad = pad, src = src)),
            Stmt::GetId { var } => out.push_str(&format!("{pad}v{var} = __getOrderId__(); console.log(\"g{var}:\" + v{var});\n", pad = pad, var = var)),
            Stmt::Call { var, func } => out.push_str(&format!("{pad}v{var} = await f{func}(); __t(\"v{var}\", v{var});\n", pad = pad, var = var, func = func)),
        }
    }
}

pub fn render(p: &Prog, sites: &Sites) -> String {
    let mut out = String::from("import { order, __cancelOrder__, __getOrderId__ } from \"tsrun:host\";\n");
    out.push_str(PRELUDE);
    if p.nvars > 0 {
        let names: Vec<String> = (1..=p.nvars).map(|i| format!("v{}", i)).collect();
        out.push_str(&format!("let {};\n", names.join(", ")));
    }
    let ret = |r: &[u32]| -> String { r.iter().map(|x| format!("v{}", x)).collect::<Vec<_>>().join(", ") };
    for f in &p.funcs {
        out.push_str(&format!("async function f{}() {{\n", f.id));
        render_stmts(&f.body, sites, 1, &mut out);
        out.push_str(&format!("  return [{}];\n}}\n", ret(&f.ret)));
    }
    if p.toplevel {
        render_stmts(&p.main, sites, 0, &mut out);
        out.push_str(&format!("__s([{}])\n", ret(&p.ret)));
    } else {
        out.push_str("async function main() {\n");
        render_stmts(&p.main, sites, 1, &mut out);
        out.push_str(&format!("  return [{}];\n}}\nconst __r = await main();\n__s(__r)\n", ret(&p.ret)));
    }
    out
}

// ------------------------------------------------------------------------------------------------
// Model values
// ------------------------------------------------------------------------------------------------
#[derive(Clone, Debug, PartialEq)]
pub enum MV {
    Undef,
    Num(i64),
    /// a `__getOrderId__()` result: its value is only known to the real run
    Opaque,
    Str(String),
    Obj(Value),
    Arr(Vec<MV>),
    /// element of an allSettled result: (fulfilled?, value/reason)
    Settled(bool, Box<MV>),
    P(usize),
}

pub fn show(v: &MV) -> String {
    match v {
        MV::Undef => "undefined".into(),
        MV::Num(n) => n.to_string(),
        MV::Opaque => "#".into(),
        MV::Str(s) => s.clone(),
        MV::Obj(o) => o.to_string(),
        MV::Arr(xs) => format!("[{}]", xs.iter().map(show).collect::<Vec<_>>().join(",")),
        MV::Settled(true, x) => format!("F({})", show(x)),
        MV::Settled(false, x) => format!("R({})", show_err(x)),
        MV::P(_) => "[promise]".into(),
    }
}
pub fn show_err(v: &MV) -> String {
    match v {
        MV::Arr(xs) => format!("agg[{}]", xs.iter().map(show_err).collect::<Vec<_>>().join(",")),
        other => show(other),
    }
}

pub fn val_of_site(site: u32) -> i64 {
    site as i64 * 10 + 1
}
pub fn obj_of_site(site: u32) -> Value {
    json!({"l": [site, site + 1], "s": format!("r{}", site), "v": site})
}
/// value a host promise is resolved with: a string at odd sites, a fresh object at even sites
pub fn res_of_site(site: u32) -> MV {
    if site % 2 == 0 {
        MV::Obj(json!({"r": site}))
    } else {
        MV::Str(format!("res{}", site))
    }
}
pub fn rej_of_site(site: u32) -> String {
    format!("rej{}", site)
}
pub fn boom_of_site(site: u32) -> String {
    format!("boom{}", site)
}

// ------------------------------------------------------------------------------------------------
// Model: promise heap
// ------------------------------------------------------------------------------------------------
#[derive(Clone, Debug)]
enum PS {
    Pending,
    Ful(MV),
    Rej(MV),
}
#[derive(Clone, Debug)]
enum React {
    CombInput { comb: usize, idx: usize },
    Then { target: usize, tag: u32, catch: bool },
}
#[derive(Clone, Debug)]
struct MP {
    state: PS,
    /// ordinal of the order this host promise is linked to
    linked: Option<usize>,
    reactions: Vec<React>,
}
#[derive(Clone, Debug)]
struct CombState {
    kind: Comb,
    result: usize,
    remaining: usize,
    slots: Vec<MV>,
    done: bool,
    /// per input: linked order ordinal (race only)
    linked: Vec<Option<usize>>,
}

/// One host action as the model sees it.
#[derive(Clone, Copy, Debug, PartialEq, Eq)]
pub enum H {
    /// the host answered the outstanding order with ordinal n (the answer is determined by the site table)
    Answer(usize),
    /// the host settled the promise it gave as answer to order n
    Settle(usize),
    /// the host stepped until the next non-Continue result
    Step,
}

/// What a step must report.
#[derive(Clone, Debug, PartialEq)]
pub enum Pred {
    /// Suspended with exactly this new order (ordinal) in `pending`
    NewOrder(usize),
    /// Suspended with an empty `pending` list
    Waiting,
    Complete(String),
    Error(String),
}

#[derive(Clone, Debug, PartialEq)]
pub enum Block {
    /// blocked in order n; bool = the host has answered (the next step resumes)
    Order(usize, bool),
    /// blocked awaiting a pending promise; bool = it is settled by now (the next step resumes)
    Await(bool),
    Finished,
}

#[derive(Clone, Debug)]
pub struct Issued {
    pub site: u32,
    pub payload: Value,
}

#[derive(Clone, Debug)]
pub struct SimOut {
    /// one prediction per H::Step of the history
    pub events: Vec<Pred>,
    pub log: Vec<String>,
    pub issued: Vec<Issued>,
    /// cancellations that must reach the host (ordinals of the orders whose id is named), in raise order
    pub cancel_req: Vec<usize>,
    /// cancellations that may reach the host
    pub cancel_opt: Vec<usize>,
    /// cancel_req.len() at the time each event was emitted
    pub req_at_event: Vec<usize>,
    pub block: Block,
    /// ordinals whose answer was a promise that the host has not settled yet
    pub unsettled: Vec<usize>,
    /// ordinals whose answer was a promise that is settled
    pub settled: Vec<usize>,
    /// number of orders answered so far
    pub answered: usize,
    /// constructs that actually executed (for evidence)
    pub executed: Vec<&'static str>,
    /// internal inconsistency of the history (e.g. settle of a promise that does not exist)
    pub bad_history: Option<String>,
}

enum Stop {
    Blocked,
    Throw(MV),
}

struct Sim<'a> {
    prog: &'a Prog,
    sites: &'a Sites,
    hist: &'a [H],
    ids: &'a [u64],
    cur: usize,
    heap: Vec<MP>,
    combs: Vec<CombState>,
    vars: Vec<MV>,
    ord_promise: Vec<Option<usize>>,
    ord_settled: Vec<bool>,
    out: SimOut,
}

impl<'a> Sim<'a> {
    fn emit(&mut self, p: Pred) {
        self.out.req_at_event.push(self.out.cancel_req.len());
        self.out.events.push(p);
    }
    fn new_promise(&mut self, state: PS, linked: Option<usize>) -> usize {
        self.heap.push(MP { state, linked, reactions: vec![] });
        self.heap.len() - 1
    }
    fn state_of(&self, v: &MV) -> PS {
        match v {
            MV::P(p) => self.heap.get(*p).map(|m| m.state.clone()).unwrap_or(PS::Pending),
            other => PS::Ful(other.clone()),
        }
    }
    fn settle(&mut self, pid: usize, outcome: PS) {
        let (reactions, linked) = {
            let Some(m) = self.heap.get_mut(pid) else { return };
            if !matches!(m.state, PS::Pending) {
                return;
            }
            m.state = outcome.clone();
            (std::mem::take(&mut m.reactions), m.linked)
        };
        if let (PS::Rej(_), Some(n)) = (&outcome, linked) {
            self.out.cancel_req.push(n);
        }
        for r in reactions {
            self.react(r, &outcome);
        }
    }
    fn then_outcome(tag: u32, catch: bool, outcome: &PS) -> PS {
        match outcome {
            PS::Ful(v) => {
                if catch {
                    PS::Ful(v.clone())
                } else {
                    PS::Ful(MV::Arr(vec![v.clone(), MV::Str(format!("t{}", tag))]))
                }
            }
            PS::Rej(r) => {
                if catch {
                    PS::Ful(MV::Str(format!("k{}", show_err(r))))
                } else {
                    PS::Rej(r.clone())
                }
            }
            PS::Pending => PS::Pending,
        }
    }
    fn react(&mut self, r: React, outcome: &PS) {
        match r {
            React::Then { target, tag, catch } => {
                let o = Self::then_outcome(tag, catch, outcome);
                self.settle(target, o);
            }
            React::CombInput { comb, idx } => {
                let Some(c) = self.combs.get_mut(comb) else { return };
                let result = c.result;
                match c.kind {
                    Comb::All => {
                        if c.done {
                            return;
                        }
                        match outcome {
                            PS::Ful(v) => {
                                if let Some(s) = c.slots.get_mut(idx) {
                                    *s = v.clone();
                                }
                                c.remaining = c.remaining.saturating_sub(1);
                                if c.remaining == 0 {
                                    c.done = true;
                                    let arr = MV::Arr(c.slots.clone());
                                    self.settle(result, PS::Ful(arr));
                                }
                            }
                            PS::Rej(r) => {
                                c.done = true;
                                self.settle(result, PS::Rej(r.clone()));
                            }
                            PS::Pending => {}
                        }
                    }
                    Comb::Race => {
                        if c.done {
                            return;
                        }
                        c.done = true;
                        let losers: Vec<usize> = c.linked.iter().enumerate().filter(|(j, _)| *j != idx).filter_map(|(_, l)| *l).collect();
                        self.out.cancel_req.extend(losers);
                        self.settle(result, outcome.clone());
                    }
                    Comb::Any => match outcome {
                        PS::Ful(v) => {
                            if !c.done {
                                c.done = true;
                                self.settle(result, PS::Ful(v.clone()));
                            }
                        }
                        PS::Rej(r) => {
                            if let Some(s) = c.slots.get_mut(idx) {
                                *s = r.clone();
                            }
                            c.remaining = c.remaining.saturating_sub(1);
                            if c.remaining == 0 && !c.done {
                                c.done = true;
                                let arr = MV::Arr(c.slots.clone());
                                self.settle(result, PS::Rej(arr));
                            }
                        }
                        PS::Pending => {}
                    },
                    Comb::AllSettled => {
                        let e = match outcome {
                            PS::Ful(v) => MV::Settled(true, Box::new(v.clone())),
                            PS::Rej(r) => MV::Settled(false, Box::new(r.clone())),
                            PS::Pending => return,
                        };
                        if let Some(s) = c.slots.get_mut(idx) {
                            *s = e;
                        }
                        c.remaining = c.remaining.saturating_sub(1);
                        if c.remaining == 0 && !c.done {
                            c.done = true;
                            let arr = MV::Arr(c.slots.clone());
                            self.settle(result, PS::Ful(arr));
                        }
                    }
                }
            }
        }
    }

    /// ECMAScript Promise.all/race/any/allSettled over `inputs` (non-promise values count as fulfilled).
    fn combinator(&mut self, kind: Comb, inputs: &[MV]) -> MV {
        let states: Vec<PS> = inputs.iter().map(|v| self.state_of(v)).collect();
        let pending: Vec<usize> = states.iter().enumerate().filter(|(_, s)| matches!(s, PS::Pending)).map(|(i, _)| i).collect();
        let linked: Vec<Option<usize>> = inputs
            .iter()
            .map(|v| match v {
                MV::P(p) => self.heap.get(*p).and_then(|m| m.linked),
                _ => None,
            })
            .collect();
        let immediate: Option<PS> = match kind {
            Comb::All => {
                if let Some(PS::Rej(r)) = states.iter().find(|s| matches!(s, PS::Rej(_))) {
                    Some(PS::Rej(r.clone()))
                } else if pending.is_empty() {
                    Some(PS::Ful(MV::Arr(states.iter().map(|s| if let PS::Ful(v) = s { v.clone() } else { MV::Undef }).collect())))
                } else {
                    None
                }
            }
            Comb::Race => {
                let first = states.iter().find(|s| !matches!(s, PS::Pending)).cloned();
                if first.is_some() {
                    // a race decided when it is called: its pending linked inputs lose -- the docs do not say
                    // clearly whether that is a cancellation: optional
                    for i in &pending {
                        if let Some(Some(n)) = linked.get(*i) {
                            self.out.cancel_opt.push(*n);
                        }
                    }
                }
                first
            }
            Comb::Any => {
                if let Some(PS::Ful(v)) = states.iter().find(|s| matches!(s, PS::Ful(_))) {
                    Some(PS::Ful(v.clone()))
                } else if pending.is_empty() {
                    if states.is_empty() {
                        Some(PS::Rej(MV::Arr(vec![])))
                    } else {
                        Some(PS::Rej(MV::Arr(states.iter().map(|s| if let PS::Rej(r) = s { r.clone() } else { MV::Undef }).collect())))
                    }
                } else {
                    None
                }
            }
            Comb::AllSettled => {
                if pending.is_empty() {
                    Some(PS::Ful(MV::Arr(
                        states
                            .iter()
                            .map(|s| match s {
                                PS::Ful(v) => MV::Settled(true, Box::new(v.clone())),
                                PS::Rej(r) => MV::Settled(false, Box::new(r.clone())),
                                PS::Pending => MV::Undef,
                            })
                            .collect(),
                    )))
                } else {
                    None
                }
            }
        };
        if let Some(st) = immediate {
            let p = self.new_promise(st, None);
            return MV::P(p);
        }
        let result = self.new_promise(PS::Pending, None);
        let slots: Vec<MV> = states
            .iter()
            .map(|s| match (kind, s) {
                (Comb::All, PS::Ful(v)) => v.clone(),
                (Comb::Any, PS::Rej(r)) => r.clone(),
                (Comb::AllSettled, PS::Ful(v)) => MV::Settled(true, Box::new(v.clone())),
                (Comb::AllSettled, PS::Rej(r)) => MV::Settled(false, Box::new(r.clone())),
                _ => MV::Undef,
            })
            .collect();
        self.combs.push(CombState { kind, result, remaining: pending.len(), slots, done: false, linked });
        let ci = self.combs.len() - 1;
        for i in pending {
            if let Some(MV::P(p)) = inputs.get(i) {
                if let Some(m) = self.heap.get_mut(*p) {
                    m.reactions.push(React::CombInput { comb: ci, idx: i });
                }
            }
        }
        MV::P(result)
    }

    fn next_hist(&mut self) -> Option<H> {
        let h = self.hist.get(self.cur).copied();
        if h.is_some() {
            self.cur += 1;
        }
        h
    }

    fn apply_settle(&mut self, n: usize) {
        let site = self.out.issued.get(n).map(|i| i.site).unwrap_or(0);
        let Some(Some(pid)) = self.ord_promise.get(n).copied() else {
            self.out.bad_history = Some(format!("settle of order {} which has no promise", n));
            return;
        };
        if let Some(s) = self.ord_settled.get_mut(n) {
            *s = true;
        }
        let resolve = self.sites.get(&site).map(|s| s.resolve).unwrap_or(true);
        let o = if resolve { PS::Ful(res_of_site(site)) } else { PS::Rej(MV::Str(rej_of_site(site))) };
        self.settle(pid, o);
    }

    /// The blocking syscall: returns the host's answer.
    fn order_call(&mut self, site: u32, with: Option<u32>) -> Result<MV, Stop> {
        let w = with.map(|x| show(self.vars.get(x as usize).unwrap_or(&MV::Undef)));
        let n = self.out.issued.len();
        self.out.issued.push(Issued { site, payload: payload_json(site, w.as_deref()) });
        self.ord_promise.push(None);
        self.ord_settled.push(false);
        self.emit(Pred::NewOrder(n));
        let mut answer: Option<Result<MV, MV>> = None;
        loop {
            match self.next_hist() {
                None => {
                    self.out.block = Block::Order(n, answer.is_some());
                    return Err(Stop::Blocked);
                }
                Some(H::Answer(m)) => {
                    if m != n || answer.is_some() {
                        self.out.bad_history = Some(format!("answer for order {} while order {} is outstanding", m, n));
                        continue;
                    }
                    self.out.answered += 1;
                    let kind = self.sites.get(&site).map(|s| s.kind).unwrap_or(Kind::Val);
                    answer = Some(match kind {
                        Kind::Val => Ok(MV::Num(val_of_site(site))),
                        Kind::Obj => Ok(MV::Obj(obj_of_site(site))),
                        Kind::Err => Err(MV::Str(boom_of_site(site))),
                        Kind::IdEcho => Ok(MV::Num(self.ids.get(n).copied().unwrap_or(0) as i64)),
                        Kind::PromPlain | Kind::Callback => {
                            let p = self.new_promise(PS::Pending, None);
                            if let Some(s) = self.ord_promise.get_mut(n) {
                                *s = Some(p);
                            }
                            Ok(MV::P(p))
                        }
                        Kind::PromLinked => {
                            let p = self.new_promise(PS::Pending, Some(n));
                            if let Some(s) = self.ord_promise.get_mut(n) {
                                *s = Some(p);
                            }
                            Ok(MV::P(p))
                        }
                    });
                }
                Some(H::Settle(m)) => self.apply_settle(m),
                Some(H::Step) => match answer.take() {
                    Some(Ok(v)) => return Ok(v),
                    Some(Err(e)) => return Err(Stop::Throw(e)),
                    None => self.emit(Pred::Waiting),
                },
            }
        }
    }

    fn await_value(&mut self, v: MV) -> Result<MV, Stop> {
        let MV::P(pid) = v else { return Ok(v) };
        let mut first = true;
        loop {
            match self.heap.get(pid).map(|m| m.state.clone()).unwrap_or(PS::Pending) {
                PS::Ful(x) if first => return Ok(x),
                PS::Rej(r) if first => return Err(Stop::Throw(r)),
                _ => {}
            }
            if first {
                // the program stops here
                self.emit(Pred::Waiting);
                first = false;
            }
            match self.next_hist() {
                None => {
                    let settled = !matches!(self.heap.get(pid).map(|m| m.state.clone()), Some(PS::Pending) | None);
                    self.out.block = Block::Await(settled);
                    return Err(Stop::Blocked);
                }
                Some(H::Answer(m)) => {
                    self.out.bad_history = Some(format!("answer for order {} while no order is outstanding", m));
                }
                Some(H::Settle(m)) => self.apply_settle(m),
                Some(H::Step) => match self.heap.get(pid).map(|m| m.state.clone()).unwrap_or(PS::Pending) {
                    PS::Ful(x) => return Ok(x),
                    PS::Rej(r) => return Err(Stop::Throw(r)),
                    PS::Pending => self.emit(Pred::Waiting),
                },
            }
        }
    }

    fn var(&self, x: u32) -> MV {
        self.vars.get(x as usize).cloned().unwrap_or(MV::Undef)
    }
    fn set(&mut self, x: u32, v: MV, trace: bool) {
        if trace {
            self.out.log.push(format!("v{}:{}", x, show(&v)));
        }
        if let Some(s) = self.vars.get_mut(x as usize) {
            *s = v;
        }
    }

    fn exec_block(&mut self, ss: &[Stmt]) -> Result<(), Stop> {
        for s in ss {
            match s {
                Stmt::Order { var, site, awaited, with } => {
                    self.out.executed.push(if *awaited { "stmt:await-order" } else { "stmt:order-then-later" });
                    let v = self.order_call(*site, *with)?;
                    let v = if *awaited { self.await_value(v)? } else { v };
                    self.set(*var, v, true);
                }
                Stmt::Await { var, src } => {
                    self.out.executed.push("stmt:await-var");
                    let v = self.var(*src);
                    let v = self.await_value(v)?;
                    self.set(*var, v, true);
                }
                Stmt::Comb { var, f, args, awaited } => {
                    self.out.executed.push(match f {
                        Comb::All => "stmt:Promise.all",
                        Comb::Race => "stmt:Promise.race",
                        Comb::Any => "stmt:Promise.any",
                        Comb::AllSettled => "stmt:Promise.allSettled",
                    });
                    let inputs: Vec<MV> = args.iter().map(|x| self.var(*x)).collect();
                    let v = self.combinator(*f, &inputs);
                    let v = if *awaited { self.await_value(v)? } else { v };
                    self.set(*var, v, true);
                }
                Stmt::Then { var, src, catch, awaited } => {
                    self.out.executed.push(if *catch { "stmt:catch-method" } else { "stmt:then-method" });
                    let sv = self.var(*src);
                    let st = self.state_of(&sv);
                    let v = match st {
                        PS::Pending => {
                            let target = self.new_promise(PS::Pending, None);
                            if let MV::P(p) = sv {
                                if let Some(m) = self.heap.get_mut(p) {
                                    m.reactions.push(React::Then { target, tag: *var, catch: *catch });
                                }
                            }
                            MV::P(target)
                        }
                        settled => {
                            let o = Self::then_outcome(*var, *catch, &settled);
                            MV::P(self.new_promise(o, None))
                        }
                    };
                    let v = if *awaited { self.await_value(v)? } else { v };
                    self.set(*var, v, true);
                }
                Stmt::Try { id, body, handler } => {
                    self.out.executed.push("stmt:try");
                    match self.exec_block(body) {
                        Err(Stop::Throw(r)) => {
                            self.out.executed.push("stmt:catch-entered");
                            self.out.log.push(format!("c{}:{}", id, show_err(&r)));
                            self.exec_block(handler)?;
                        }
                        other => other?,
                    }
                }
                Stmt::Cancel { src } => {
                    if let MV::Num(idv) = self.var(*src) {
                        self.out.executed.push("stmt:__cancelOrder__");
                        // the variable holds the id of an order (IdEcho answer): find its ordinal
                        if let Some(n) = self.ids.iter().position(|i| *i as i64 == idv) {
                            self.out.cancel_req.push(n);
                        } else {
                            self.out.bad_history = Some(format!("__cancelOrder__ of a number that is not an order id: {}", idv));
                        }
                        self.out.log.push(format!("x{}:cancel", src));
                    }
                }
                Stmt::GetId { var } => {
                    self.out.executed.push("stmt:__getOrderId__");
                    self.out.log.push(format!("g{}:#", var));
                    self.set(*var, MV::Opaque, false);
                }
                Stmt::Call { var, func } => {
                    self.out.executed.push("stmt:await-async-call");
                    let prog = self.prog;
                    let Some(f) = prog.funcs.iter().find(|f| f.id == *func) else { continue };
                    self.exec_block(&f.body)?;
                    let r = MV::Arr(f.ret.iter().map(|x| self.var(*x)).collect());
                    self.set(*var, r, true);
                }
            }
        }
        Ok(())
    }
}

/// Reference run of `prog` under the host history `hist`. `ids[n]` = the id the real run reported for the
/// n-th order (any distinct numbers when only control flow matters).
pub fn simulate(prog: &Prog, sites: &Sites, hist: &[H], ids: &[u64]) -> SimOut {
    let mut sim = Sim {
        prog,
        sites,
        hist,
        ids,
        cur: 0,
        heap: vec![],
        combs: vec![],
        vars: vec![MV::Undef; prog.nvars as usize + 1],
        ord_promise: vec![],
        ord_settled: vec![],
        out: SimOut {
            events: vec![],
            log: vec![],
            issued: vec![],
            cancel_req: vec![],
            cancel_opt: vec![],
            req_at_event: vec![],
            block: Block::Finished,
            unsettled: vec![],
            settled: vec![],
            answered: 0,
            executed: vec![],
            bad_history: None,
        },
    };
    // the program starts running at the first Step of the history
    let started = loop {
        match sim.next_hist() {
            None => break false,
            Some(H::Step) => break true,
            Some(other) => sim.out.bad_history = Some(format!("{:?} before the run started", other)),
        }
    };
    if !started {
        sim.out.block = Block::Await(true);
        return sim.out;
    }
    let main = prog.main.clone();
    match sim.exec_block(&main) {
        Ok(()) => {
            let r = MV::Arr(prog.ret.iter().map(|x| sim.var(*x)).collect());
            let s = show(&r);
            sim.emit(Pred::Complete(s));
            sim.out.block = Block::Finished;
        }
        Err(Stop::Throw(r)) => {
            let s = show_err(&r);
            sim.emit(Pred::Error(s));
            sim.out.block = Block::Finished;
        }
        Err(Stop::Blocked) => {}
    }
    // anything the host did after the end of the run (or that the run did not consume)
    while let Some(h) = sim.next_hist() {
        match h {
            H::Settle(m) => sim.apply_settle(m),
            H::Answer(m) => sim.out.bad_history = Some(format!("answer for order {} after the run ended", m)),
            H::Step => {
                if sim.out.block == Block::Finished {
                    sim.out.bad_history = Some("step after the run ended".into());
                }
            }
        }
    }
    for (n, p) in sim.ord_promise.iter().enumerate() {
        if p.is_some() {
            if sim.ord_settled.get(n).copied().unwrap_or(false) {
                sim.out.settled.push(n);
            } else {
                sim.out.unsettled.push(n);
            }
        }
    }
    sim.out
}
