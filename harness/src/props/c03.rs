//! C03 — TypeScript type syntax is erased: outcome(D(P)) == outcome(P).

use crate::core::{Ctx, Exec, Plan, Property, Tier};
use crate::engine::{run_simple, RunOpts};
use crate::progen::{gen_script, render_plain, ts::decorate, Config, SHOW_PRELUDE};
use crate::tape::Tape;
use serde_json::{json, Value};

pub struct C03Prop;
pub static C03: C03Prop = C03Prop;

impl Property for C03Prop {
    fn id(&self) -> &'static str {
        "C03"
    }
    fn rule(&self) -> String {
        "P = a progen program (full profile) whose text carries decoration slots at every position where TypeScript allows purely static syntax; D(P) fills a tape-chosen subset of the slots: variable/parameter/return annotations, `as`/`as unknown as`/`satisfies`/`<T>e` assertions, postfix `!`, type parameters on functions and classes, `implements`, field and method modifiers, overload signatures, index signatures and `declare` fields in classes, and interleaved `interface`/`type`/`declare const|let|var|function|class|namespace`/abstract-class/unique-symbol declarations whose types come from a recursive type grammar (arrays, tuples incl. named/optional/rest, unions/intersections, function and constructor types, object types with call/construct/index/method signatures, mapped types with modifiers, conditional types with infer, indexed access, keyof/typeof, template literal types, generics with constraints and defaults, type predicates). Oracle: P and D(P), run in fresh interpreters, give the same completion value, console output and error class. Productions gated by an open finding are not emitted (counted). Non-trivial: >= 3 decorations of >= 2 kinds were inserted and P did not stop with a SyntaxError. Distinct = distinct decorated text.".into()
    }
    fn assumptions(&self) -> Vec<String> {
        vec!["the decoration grammar only produces TypeScript whose validity does not depend on the type checker (annotation types are any-compatible supertypes of the generator's static type; wild types appear only in unused declarations); there is no tsc in the sandbox to confirm".into()]
    }
    fn plan(&self, tier: Tier) -> Plan {
        Plan { shards: 16, cases_per_shard: tier.pick(4000, 80000), tape_len: tier.pick(900, 1800), watchdog_s: tier.pick(900, 7200) }
    }
    fn generate(&self, tape: &mut Tape, ctx: &Ctx) -> Value {
        let max = if ctx.tier == Tier::Quick { 12 } else { 26 };
        let mut cfg = Config::full(max);
        cfg.ts_slots = true;
        let p = gen_script(tape, &crate::findings::Gates::none(), cfg);
        let d = decorate(&p.marked, tape, &ctx.gates);
        json!({
            "plain": format!("{}{}", SHOW_PRELUDE, render_plain(&p.marked)),
            "decorated": format!("{}{}", SHOW_PRELUDE, d.text),
            "decorations": d.count,
            "kinds": d.kinds,
            "excluded": d.excluded,
        })
    }
    fn execute(&self, case: &Value, _ctx: &mut Ctx) -> Exec {
        let plain = case["plain"].as_str().unwrap_or("");
        let deco = case["decorated"].as_str().unwrap_or("");
        let opts = RunOpts { step_budget: 2_000_000, ..Default::default() };
        let a = run_simple(plain, &opts);
        let b = run_simple(deco, &opts);
        let mut counters: Vec<(String, u64)> = vec![];
        if let Some(ex) = case["excluded"].as_object() {
            for (k, v) in ex {
                counters.push((format!("excluded_by_gate:{}", k), v.as_u64().unwrap_or(0)));
            }
        }
        let kinds: Vec<String> = case["kinds"].as_object().map(|m| m.keys().cloned().collect()).unwrap_or_default();
        if a.end == "budget" || b.end == "budget" {
            return Exec::discard("step budget");
        }
        if a.visible() != b.visible() {
            let sig = if b.end.starts_with("error:SyntaxError") && !a.end.starts_with("error:SyntaxError") {
                format!("c03:decorated-rejected {}", b.err_text.chars().take(60).collect::<String>())
            } else if b.end.starts_with("panic") {
                format!("c03:{}", b.end)
            } else {
                "c03:outcome-differs".to_string()
            };
            let mut e = Exec::fail(sig, format!("plain and decorated program differ: plain end={:?} decorated end={:?} err={:?}", a.end.chars().take(120).collect::<String>(), b.end.chars().take(120).collect::<String>(), b.err_text.chars().take(160).collect::<String>()));
            e.observed = json!({"plain": a.to_json(), "decorated": b.to_json()});
            e.tags = kinds;
            e.counters = counters;
            return e;
        }
        let n = case["decorations"].as_u64().unwrap_or(0);
        let nontrivial = n >= 3 && kinds.len() >= 2 && !a.end.starts_with("error:SyntaxError");
        let mut e = Exec::pass(nontrivial);
        e.tags = kinds;
        e.counters = counters;
        e.counters.push(("decorations_inserted".into(), n));
        e.observed = json!({"end": a.end.chars().take(200).collect::<String>(), "decorations": n});
        e
    }
}
