//! C03 — TypeScript type syntax is erased: outcome(D(P)) == outcome(P).

use crate::core::{guarded, Ctx, Exec, Plan, Property, Tier};
use crate::engine::{drive, host_modules_all, new_interp, reset_hooks, run_simple, Outcome, RunOpts};
use crate::progen::{
    gen_script, render_plain,
    ts::{decorate_with, DecoOpts},
    Config, SHOW_PRELUDE,
};
use crate::tape::Tape;
use serde_json::{json, Value};
use std::cell::RefCell;
use std::collections::BTreeMap;
use std::rc::Rc;

pub struct C03Prop;
pub static C03: C03Prop = C03Prop;

const MAIN: &str = "/m/main.ts";
const LIB: &str = "/m/lib";

/// Run a module program; `mods` are the modules the host can supply (resolved path -> source).
fn run_modules(main: &str, mods: &BTreeMap<String, String>, opts: &RunOpts) -> Outcome {
    let log = Rc::new(RefCell::new(Vec::new()));
    let mut out = Outcome::default();
    reset_hooks();
    let r = guarded(|| {
        let mut interp = new_interp(&log);
        let mut host = host_modules_all(mods.clone());
        let res = drive(&mut interp, main, opts, &mut host);
        drop(interp);
        res
    });
    tsrun::verif_hooks::vm_instr_set_limit(0);
    match r {
        Ok((end, err_text, steps, trace)) => {
            out.end = end;
            out.err_text = err_text;
            out.steps = steps;
            out.trace = trace;
        }
        Err(p) => {
            if p.contains("verif: vm work limit") {
                out.end = "budget".into();
            } else {
                out.end = format!("panic:{}", p);
            }
        }
    }
    out.log = log.borrow().clone();
    out
}

/// `body\n__show(X)` -> `body\nconsole.log("final:" + __show(X));` (a module has no completion value to rely on)
fn module_tail(body: &str) -> String {
    match body.rfind('\n') {
        Some(i) => format!("{}\nconsole.log(\"final:\" + {});", &body[..i], &body[i + 1..]),
        None => format!("console.log(\"final:\" + {});", body),
    }
}

impl Property for C03Prop {
    fn id(&self) -> &'static str {
        "C03"
    }
    fn rule(&self) -> String {
        "P = a progen program (full profile) whose text carries decoration slots at every position where TypeScript allows purely static syntax; D(P) fills a tape-chosen subset of the slots: variable/parameter/return/catch annotations, definite assignment assertions, `as`/`as unknown as`/`satisfies`/`<T>e` assertions (parenthesised and bare at the end of initialisers, arguments and return values), postfix `!`, type parameters on functions, methods, arrow functions and classes with matching explicit type arguments on calls, `implements`, member modifiers (public/readonly/static combinations, override, declare), overload signatures of functions, methods and constructors, index signatures, optional and `declare` members, `abstract` classes with abstract members (classes only used as base), local `type`/`interface` declarations in function bodies and blocks, and interleaved top-level `interface`/`type`/`declare const|let|var|function|class|abstract class|namespace|module|global|type|interface`/unique-symbol declarations whose types come from a recursive type grammar (arrays, tuples incl. named/optional/rest, readonly, unions/intersections incl. leading `|`/`&`, function/constructor/abstract-constructor/generic function types, `this` parameters, object types with call/construct/index/method/accessor signatures and keyword/computed member names, mapped types with +/-modifiers and `as`, conditional types with infer (incl. constraints), indexed access, keyof/typeof incl. qualified names and instantiation expressions, template literal types, bigint/negative literal types, qualified names, import types, generics with constraints/defaults/variance/const, type predicates). One case in four is a module program importing a value module: D(P) then adds `import type`, inline `type` specifiers, `export type`/`export interface`/`export declare`, and a type-only module that the host does not have. Oracle: P and D(P), run in fresh interpreters, give the same completion value, console output, error class and (modules) the same sequence of import requests. Productions gated by an open finding are not emitted (counted). Non-trivial: >= 3 decorations of >= 2 kinds were inserted and P did not stop with a SyntaxError. Distinct = distinct decorated text.".into()
    }
    fn assumptions(&self) -> Vec<String> {
        vec![
            "the decoration grammar only produces TypeScript whose syntactic validity does not depend on the type checker (annotation types are any-compatible supertypes of the generator's static type; wild types appear only in unused declarations); there is no tsc in the sandbox to confirm; productions follow the TypeScript handbook and release notes (<= 5.0)".into(),
            "class fields follow ES2022 define semantics (as tsrun implements them), so D never adds an uninitialised field without `declare`; parameter properties and enums/namespaces with run-time meaning belong to C04 and are not generated".into(),
        ]
    }
    fn plan(&self, tier: Tier) -> Plan {
        Plan { shards: 16, cases_per_shard: tier.pick(4000, 60000), tape_len: tier.pick(1100, 2400), watchdog_s: tier.pick(900, 7200) }
    }
    fn generate(&self, tape: &mut Tape, ctx: &Ctx) -> Value {
        let max = if ctx.tier == Tier::Quick { 12 } else { 26 };
        let module = tape.chance(1, 4);
        let depth = if ctx.tier == Tier::Quick { 1 + tape.below(3) } else { 1 + tape.below(6) };
        let mut cfg = Config::full(max);
        cfg.ts_slots = true;
        let p = gen_script(tape, &crate::findings::Gates::none(), cfg);
        let d = decorate_with(&p.marked, tape, &ctx.gates, DecoOpts { module, depth });
        let mut kinds = d.kinds.clone();
        if !module {
            return json!({
                "plain": format!("{}{}", SHOW_PRELUDE, render_plain(&p.marked)),
                "decorated": format!("{}{}", SHOW_PRELUDE, d.text),
                "decorations": d.count,
                "kinds": kinds,
                "excluded": d.excluded,
            });
        }
        // module program: main imports values (named, default, namespace) from ./lib and USES them;
        // D(P) adds type-only traffic around exactly the same value imports
        let mut n = d.count;
        let mut bump = |k: &str, n: &mut usize| {
            *kinds.entry(k.to_string()).or_insert(0) += 1;
            *n += 1;
        };
        // the value-import shape of P, the expression that uses every imported binding, and D's variants of the shape
        let shape = tape.below(5);
        let (plain_import, uses): (&str, &str) = match shape {
            0 => ("import { libv, libf } from \"./lib\";", "[libv, libf(2)]"),
            1 => ("import Def from \"./lib\";", "[Def.k, Def.f(2)]"),
            2 => ("import Def, { libv, libf } from \"./lib\";", "[Def.k, Def.f(2), libv, libf(2)]"),
            3 => ("import Def, * as ns from \"./lib\";", "[Def.k, ns.libv, ns.libf(2), ns.default === Def, Object.keys(ns).sort().join()]"),
            _ => ("import * as ns from \"./lib\";", "[ns.libv, ns.libf(2), ns.default.k, Object.keys(ns).sort().join()]"),
        };
        let variant = tape.below(5);
        let import_line: String = match (shape, variant) {
            (0, 0) => plain_import.to_string(),
            (0, 1) => {
                bump("module:inline-type-specifier", &mut n);
                "import { libv, type LT, libf } from \"./lib\";".to_string()
            }
            (0, 2) => {
                bump("module:inline-type-specifier", &mut n);
                "import { type LT as Renamed, libv, libf, type LI } from \"./lib\";".to_string()
            }
            (0, 3) => {
                bump("module:import-type", &mut n);
                "import type { TA } from \"./types\";\nimport { libv, libf } from \"./lib\";\nimport type TDef from \"./types\";".to_string()
            }
            (0, _) => {
                bump("module:import-type", &mut n);
                "import { libv, libf } from \"./lib\";\nimport type * as Types from \"./types\";\nimport type { LT } from \"./lib\";".to_string()
            }
            // default binding + a braced list in which every specifier is type-only
            (1, 0) | (1, 1) => {
                bump("module:default-plus-only-type-specifiers", &mut n);
                if variant == 0 { "import Def, { type LT, type LI } from \"./lib\";".to_string() } else { "import Def, { type LT as Renamed } from \"./lib\";".to_string() }
            }
            (1, 2) => {
                bump("module:import-type", &mut n);
                "import Def from \"./lib\";\nimport type { LT } from \"./lib\";\nimport type LibDefault from \"./lib\";".to_string()
            }
            (1, 3) => {
                bump("module:inline-type-specifier", &mut n);
                // a second declaration for the same module that only imports types is erased as a whole
                "import Def from \"./lib\";\nimport { type LT, type LI } from \"./lib\";".to_string()
            }
            (1, _) => {
                bump("module:import-type", &mut n);
                "import type { TA } from \"./types\";\nimport Def from \"./lib\";".to_string()
            }
            (2, 0) => {
                bump("module:default-plus-inline-type-specifier", &mut n);
                "import Def, { type LT, libv, libf } from \"./lib\";".to_string()
            }
            (2, 1) => {
                bump("module:default-plus-inline-type-specifier", &mut n);
                "import Def, { libv, type LI, libf, type LT as Renamed } from \"./lib\";".to_string()
            }
            (2, 2) => {
                bump("module:import-type", &mut n);
                "import Def, { libv, libf } from \"./lib\";\nimport type * as LibTypes from \"./lib\";".to_string()
            }
            (2, 3) => {
                bump("module:inline-type-specifier", &mut n);
                "import Def, { libv, libf } from \"./lib\";\nimport { type LT } from \"./lib\";".to_string()
            }
            (2, _) => plain_import.to_string(),
            // namespace imports next to type-only imports of the same module
            (3, 0) => {
                bump("module:namespace-plus-type-import", &mut n);
                "import Def, * as ns from \"./lib\";\nimport type { LT, LI } from \"./lib\";".to_string()
            }
            (3, 1) => {
                bump("module:namespace-plus-type-import", &mut n);
                "import { type LT, type LI } from \"./lib\";\nimport Def, * as ns from \"./lib\";".to_string()
            }
            (3, 2) => {
                bump("module:namespace-plus-type-import", &mut n);
                "import type * as LibTypes from \"./lib\";\nimport Def, * as ns from \"./lib\";\nimport type { TA } from \"./types\";".to_string()
            }
            (3, _) => plain_import.to_string(),
            (_, 0) => {
                bump("module:namespace-plus-type-import", &mut n);
                "import * as ns from \"./lib\";\nimport type LibDefault from \"./lib\";\nimport { type LT } from \"./lib\";".to_string()
            }
            (_, 1) => {
                bump("module:namespace-plus-type-import", &mut n);
                "import type { LT } from \"./lib\";\nimport * as ns from \"./lib\";".to_string()
            }
            (_, 2) => {
                bump("module:import-type", &mut n);
                "import * as ns from \"./lib\";\nimport type * as Types from \"./types\";".to_string()
            }
            (_, _) => plain_import.to_string(),
        };
        // main's own export list: `export { type T, value }`
        let (plain_export, deco_export): (&str, String) = match tape.below(4) {
            0 => ("const mval = 1;\nexport { mval };", "const mval = 1;\nexport { mval };".to_string()),
            1 => {
                bump("module:export-inline-type-specifier", &mut n);
                ("const mval = 1;\nexport { mval };", "type MT = number;\nconst mval: MT = 1;\nexport { type MT, mval };".to_string())
            }
            2 => {
                bump("module:export-inline-type-specifier", &mut n);
                ("const mval = 1;\nexport { mval };", "interface MI {}\ntype MT = MI;\nconst mval = 1;\nexport { mval, type MT as MU, type MI };".to_string())
            }
            _ => {
                bump("module:export-type-list", &mut n);
                ("const mval = 1;\nexport { mval as renamed };", "type MT = 1;\nconst mval = 1;\nexport { mval as renamed };\nexport type { MT };\nexport type { LT as ReLT } from \"./lib\";".to_string())
            }
        };
        let plain_main = format!("{}\n{}\n{}__t(9000, {});\n{}", plain_import, plain_export, SHOW_PRELUDE, uses, module_tail(&render_plain(&p.marked)));
        let deco_main = format!("{}\n{}\n{}__t(9000, {});\n{}", import_line, deco_export, SHOW_PRELUDE, uses, module_tail(&d.text));
        let plain_lib = "console.log(\"lib\");\nexport const libv = 41;\nexport function libf(x) { return x + 1; }\nconst Def = { k: 7, f(x) { return x * 2; } };\nexport default Def;\n".to_string();
        let deco_lib = match tape.below(4) {
            0 => "console.log(\"lib\");\nexport const libv = 41;\nexport function libf(x) { return x + 1; }\nexport type LT = number;\nexport interface LI {}\nconst Def = { k: 7, f(x) { return x * 2; } };\nexport default Def;\n".to_string(),
            1 => {
                bump("module:export-type-declaration", &mut n);
                "console.log(\"lib\");\nexport type LT = number;\nexport interface LI { a: LT }\nexport const libv: LT = 41;\nexport function libf(x: number): number;\nexport function libf(x: string): string;\nexport function libf(x: any) { return x + 1; }\nexport declare const ghost: number;\nexport declare function ghostf(): void;\nconst Def = { k: 7 as LT, f(x: number): number { return x * 2; } };\nexport default Def;\n".to_string()
            }
            2 => {
                bump("module:export-type-list", &mut n);
                "console.log(\"lib\");\ntype LT = number;\ninterface LI {}\nexport type { LT, LI };\nexport type { TA as Again } from \"./types\";\nexport const libv = 41 as LT;\nexport function libf<T extends number>(x: T) { return x + 1; }\nconst Def = { k: 7, f<T extends number>(x: T) { return x * 2; } } satisfies object;\nexport default Def;\n".to_string()
            }
            _ => {
                bump("module:export-type-list", &mut n);
                "console.log(\"lib\");\nimport type { TA } from \"./types\";\ntype LT = TA;\ninterface LI {}\nconst libv = 41;\nfunction libf(x: number) { return x + 1; }\nexport { libv, type LT, libf, type LI };\nexport type * from \"./types\";\ndeclare global { interface FromLib {} }\nconst Def = { k: 7, f(x: number) { return x * 2; } };\nexport default Def;\nexport { type LT as AlsoLT };\n".to_string()
            }
        };
        json!({
            "module": true,
            "plain": plain_main,
            "decorated": deco_main,
            "plain_lib": plain_lib,
            "decorated_lib": deco_lib,
            "decorations": n,
            "kinds": kinds,
            "excluded": d.excluded,
        })
    }
    fn execute(&self, case: &Value, _ctx: &mut Ctx) -> Exec {
        let plain = case["plain"].as_str().unwrap_or("");
        let deco = case["decorated"].as_str().unwrap_or("");
        let module = case["module"].as_bool().unwrap_or(false);
        let (a, b) = if module {
            let opts = RunOpts { step_budget: 2_000_000, module_path: Some(MAIN.into()), ..Default::default() };
            let mut ma = BTreeMap::new();
            ma.insert(LIB.to_string(), case["plain_lib"].as_str().unwrap_or("").to_string());
            let mut mb = BTreeMap::new();
            mb.insert(LIB.to_string(), case["decorated_lib"].as_str().unwrap_or("").to_string());
            // "/m/types.ts" is deliberately absent: a request for it ends the run with `needimports`
            (run_modules(plain, &ma, &opts), run_modules(deco, &mb, &opts))
        } else {
            let opts = RunOpts { step_budget: 2_000_000, ..Default::default() };
            (run_simple(plain, &opts), run_simple(deco, &opts))
        };
        let mut counters: Vec<(String, u64)> = vec![];
        if let Some(ex) = case["excluded"].as_object() {
            for (k, v) in ex {
                counters.push((format!("excluded_by_gate:{}", k), v.as_u64().unwrap_or(0)));
            }
        }
        let all_kinds: Vec<(String, u64)> = case["kinds"].as_object().map(|m| m.iter().map(|(k, v)| (k.clone(), v.as_u64().unwrap_or(0))).collect()).unwrap_or_default();
        let kinds: Vec<String> = all_kinds.iter().map(|(k, _)| k.clone()).collect();
        let deco_kinds = kinds.iter().filter(|k| !k.starts_with("ty:")).count();
        if a.end == "budget" || b.end == "budget" {
            return Exec::discard("step budget");
        }
        let requests = |o: &Outcome| -> Vec<String> { o.trace.iter().filter(|t| t.starts_with("needimports")).cloned().collect() };
        if a.visible() != b.visible() || requests(&a) != requests(&b) {
            let sig = if b.end.starts_with("error:SyntaxError") && !a.end.starts_with("error:SyntaxError") {
                // digits (positions) are not part of the root cause
                let msg: String = b.err_text.split(" at ").next().unwrap_or("").chars().take(70).collect();
                format!("c03:decorated-rejected {}", msg)
            } else if b.end.starts_with("panic") {
                format!("c03:{}", b.end)
            } else if requests(&a) != requests(&b) {
                "c03:import-requests-differ".to_string()
            } else if a.end != b.end {
                format!("c03:outcome-differs {} vs {}", a.end.split(':').take(2).collect::<Vec<_>>().join(":").chars().take(40).collect::<String>(), b.end.split(':').take(2).collect::<Vec<_>>().join(":").chars().take(40).collect::<String>())
            } else {
                "c03:output-differs".to_string()
            };
            let mut e = Exec::fail(sig, format!("plain and decorated program differ: plain end={:?} decorated end={:?} err={:?}", a.end.chars().take(120).collect::<String>(), b.end.chars().take(120).collect::<String>(), b.err_text.chars().take(160).collect::<String>()));
            e.observed = json!({"plain": a.to_json(), "decorated": b.to_json()});
            e.tags = kinds;
            e.counters = counters;
            return e;
        }
        let n = case["decorations"].as_u64().unwrap_or(0);
        let nontrivial = n >= 3 && deco_kinds >= 2 && !a.end.starts_with("error:SyntaxError");
        let mut e = Exec::pass(nontrivial);
        e.tags = kinds;
        e.tags.push(if module { "program:module".into() } else { "program:script".into() });
        e.tags.push(format!("plain-end:{}", a.end.split(':').next().unwrap_or("")));
        e.counters = counters;
        e.counters.push(("decorations_inserted".into(), n));
        for (k, v) in all_kinds {
            e.counters.push((format!("n:{}", k), v));
        }
        e.observed = json!({"end": a.end.chars().take(200).collect::<String>(), "decorations": n});
        e
    }
}
