//! C19 — all ways of running a program agree.
//!
//! Two families of cases, both rendered from the choice tape by `c19gen`:
//!
//! * `kind: "entry"` — ONE program (script or module, with host-provided dependency modules, orders
//!   answered by a scripted host, planted errors) is run through every ENTRY POINT on a fresh
//!   interpreter each: `eval()` continued by `step()`; `prepare()` + `step()`; `prepare()` + `step()`
//!   with host API reads interleaved at tape-chosen steps; C API `tsrun_prepare` + `tsrun_run`;
//!   C API `tsrun_prepare` + `tsrun_step`. One host script (`run_host`) drives all of them through
//!   the small `Sut` trait, so any difference in the observation comes from the entry point.
//!   Oracle: equality of the observation (sequence of non-Continue results with import requests
//!   (specifier, resolved path, importer), order ids + payloads, cancelled ids; completion value /
//!   error text; console lines; export names -> rendered values).
//! * `kind: "role"` — ONE module source is used as entry module (then imported by a second run on
//!   the same interpreter), as host-provided dependency of an importer, and as registered
//!   `InternalModule::source`. Oracle: the importer's report (export names, typeof, values before
//!   and after calling exported mutators = live bindings, through the namespace object and through
//!   named/default import bindings) and the console lines are identical in all roles, and the
//!   host's view of the entry module (`get_export_names`/`get_export`) equals the importer's.

use super::c19gen;
use crate::core::{guarded, Ctx, Exec, Plan, Property, Tier};
use crate::engine::{fmt_f64, new_interp, reset_hooks};
use crate::tape::Tape;
use serde_json::{json, Value};
use std::cell::RefCell;
use std::collections::{BTreeMap, VecDeque};
use std::ffi::{CStr, CString};
use std::os::raw::{c_char, c_void};
use std::rc::Rc;
use tsrun::ffi::{TsRunConsoleLevel, TsRunContext, TsRunGcStats, TsRunOrderResponse, TsRunResult, TsRunStepResult, TsRunStepStatus, TsRunValue, TsRunValueResult};
use tsrun::{api, InternalModule, Interpreter, JsError, JsValue, ModulePath, OrderId, OrderResponse, RuntimeValue, StepResult};

pub struct C19Prop;
pub static C19: C19Prop = C19Prop;

/// host-side step budget per run (Rust entry points); C entry points are only run after every Rust
/// entry point finished inside the budget
const STEP_BUDGET: u64 = 2_000_000;
const MAX_ROUNDS: usize = 300;

// ---------------------------------------------------------------------------------------------
// C API (feature c-api): the #[no_mangle] functions are linked from the rlib
// ---------------------------------------------------------------------------------------------
type ConsoleFn = extern "C" fn(level: TsRunConsoleLevel, message: *const c_char, message_len: usize, userdata: *mut c_void);

#[allow(clashing_extern_declarations, improper_ctypes)]
extern "C" {
    fn tsrun_new() -> *mut TsRunContext;
    fn tsrun_free(ctx: *mut TsRunContext);
    fn tsrun_set_console(ctx: *mut TsRunContext, func: Option<ConsoleFn>, userdata: *mut c_void) -> TsRunResult;
    fn tsrun_prepare(ctx: *mut TsRunContext, code: *const c_char, path: *const c_char) -> TsRunResult;
    fn tsrun_step(out: *mut TsRunStepResult, ctx: *mut TsRunContext);
    fn tsrun_run(out: *mut TsRunStepResult, ctx: *mut TsRunContext);
    fn tsrun_step_result_free(result: *mut TsRunStepResult);
    fn tsrun_provide_module(ctx: *mut TsRunContext, path: *const c_char, code: *const c_char) -> TsRunResult;
    fn tsrun_fulfill_orders(ctx: *mut TsRunContext, responses: *const TsRunOrderResponse, count: usize) -> TsRunResult;
    fn tsrun_create_order_promise(ctx: *mut TsRunContext, order_id: u64) -> TsRunValueResult;
    fn tsrun_resolve_promise(ctx: *mut TsRunContext, promise: *mut TsRunValue, value: *mut TsRunValue) -> TsRunResult;
    fn tsrun_get_export(ctx: *mut TsRunContext, name: *const c_char) -> TsRunValueResult;
    fn tsrun_get_export_names(ctx: *mut TsRunContext, count_out: *mut usize) -> *mut *mut c_char;
    fn tsrun_free_strings(strings: *mut *mut c_char, count: usize);
    fn tsrun_free_string(s: *mut c_char);
    fn tsrun_value_free(val: *mut TsRunValue);
    fn tsrun_is_undefined(val: *const TsRunValue) -> bool;
    fn tsrun_is_null(val: *const TsRunValue) -> bool;
    fn tsrun_is_boolean(val: *const TsRunValue) -> bool;
    fn tsrun_is_number(val: *const TsRunValue) -> bool;
    fn tsrun_is_string(val: *const TsRunValue) -> bool;
    fn tsrun_is_object(val: *const TsRunValue) -> bool;
    fn tsrun_is_function(val: *const TsRunValue) -> bool;
    fn tsrun_get_bool(val: *const TsRunValue) -> bool;
    fn tsrun_get_number(val: *const TsRunValue) -> f64;
    fn tsrun_get_string(val: *const TsRunValue) -> *const c_char;
    fn tsrun_get_string_len(val: *const TsRunValue) -> usize;
    fn tsrun_number(ctx: *mut TsRunContext, n: f64) -> *mut TsRunValue;
    fn tsrun_string(ctx: *mut TsRunContext, s: *const c_char) -> *mut TsRunValue;
    fn tsrun_json_parse(ctx: *mut TsRunContext, json: *const c_char) -> TsRunValueResult;
    fn tsrun_json_stringify(ctx: *mut TsRunContext, val: *mut TsRunValue) -> *mut c_char;
    fn tsrun_gc_stats(ctx: *mut TsRunContext) -> TsRunGcStats;
}

// ---------------------------------------------------------------------------------------------
// events, responses, observation
// ---------------------------------------------------------------------------------------------
#[derive(Clone, Debug)]
pub enum Ev {
    Continue,
    Complete(String),
    Done,
    /// (specifier, resolved path, importer)
    NeedImports(Vec<(String, String, Option<String>)>),
    /// pending (id, rendered payload), cancelled ids
    Suspended(Vec<(u64, String)>, Vec<u64>),
    Error(String),
    Budget,
}

#[derive(Clone, Debug)]
pub enum Resp {
    Num(f64),
    Str(String),
    Obj(Value),
    Err(String),
    /// a host promise linked to the order, settled (with this number) at a later suspension
    Deferred(f64),
}

/// What the scripted host answers to an order: a pure function of the payload and the case's kind table.
pub fn response_for(payload_render: &str, kinds: &BTreeMap<String, String>) -> Resp {
    let k = payload_render.strip_prefix("json:").and_then(|t| serde_json::from_str::<Value>(t).ok()).and_then(|v| v.get("k").and_then(|k| k.as_u64())).unwrap_or(0);
    match kinds.get(&k.to_string()).map(|s| s.as_str()).unwrap_or("v") {
        "s" => Resp::Str(format!("r{}é", k)),
        "o" => Resp::Obj(json!({"k": k, "list": [k, k + 1], "nested": {"ok": true, "s": format!("o{}", k)}})),
        "e" => Resp::Err(format!("boom {}", k)),
        "p" => Resp::Deferred((k * 7 % 11) as f64),
        _ => Resp::Num((k * 3 % 10) as f64 + 0.5),
    }
}

#[derive(Clone, Debug, Default, PartialEq)]
pub struct Obs {
    /// the non-Continue results in order, with their payloads
    pub trace: Vec<String>,
    /// how the run ended: complete:<v> | error:<class> | done | budget | stuck | unsatisfied-import:<p> | rounds
    pub end: String,
    pub err_text: String,
    pub log: Vec<String>,
    /// export name -> rendered value, sorted by name
    pub exports: Vec<(String, String)>,
    pub panic: Option<String>,
    pub steps: u64,
    pub reads: u64,
    pub suspensions: u64,
    pub import_rounds: u64,
}

impl Obs {
    fn kinds(&self) -> Vec<String> {
        self.trace.iter().map(|t| t.split(|c| c == ':' || c == '[').next().unwrap_or("").to_string()).collect()
    }
    fn imports(&self) -> Vec<String> {
        self.trace.iter().filter(|t| t.starts_with("needimports")).cloned().collect()
    }
    fn orders(&self) -> Vec<String> {
        self.trace.iter().filter(|t| t.starts_with("suspended")).cloned().collect()
    }
    pub fn to_json(&self) -> Value {
        let clip = |s: &String| -> String { s.chars().take(400).collect() };
        json!({"trace": self.trace.iter().map(clip).collect::<Vec<_>>(), "end": clip(&self.end), "err_text": clip(&self.err_text),
               "log": self.log.iter().take(60).map(clip).collect::<Vec<_>>(), "exports": self.exports.iter().map(|(k, v)| format!("{}={}", k, clip(v))).collect::<Vec<_>>(),
               "panic": self.panic, "steps": self.steps, "reads": self.reads})
    }
}

fn error_class_of_text(t: &str) -> String {
    let head = t.split(':').next().unwrap_or("").trim();
    if head.is_empty() || head.len() > 40 { "Error".into() } else { head.to_string() }
}

// ---------------------------------------------------------------------------------------------
// the system under test behind one interface
// ---------------------------------------------------------------------------------------------
pub trait Sut {
    fn start(&mut self, src: &str, path: Option<&str>) -> Ev;
    /// run until the next non-Continue result
    fn advance(&mut self) -> Ev;
    fn provide(&mut self, path: &str, src: &str) -> Result<(), String>;
    fn fulfill(&mut self, responses: Vec<(u64, Resp)>);
    fn settle(&mut self, id: u64, value: f64) -> Result<(), String>;
    fn exports(&mut self) -> Vec<(String, String)>;
    fn log(&self) -> Vec<String>;
    fn steps(&self) -> u64;
    fn reads(&self) -> u64 {
        0
    }
}

pub fn render_rust(v: &JsValue) -> String {
    match v {
        JsValue::Undefined => "undefined".into(),
        JsValue::Null => "null".into(),
        JsValue::Boolean(b) => format!("{}", b),
        JsValue::Number(n) => format!("num:{}", fmt_f64(*n)),
        JsValue::String(s) => format!("str:{}", s.as_str()),
        JsValue::Symbol(_) => "symbol".into(),
        JsValue::Object(o) => {
            if matches!(o.borrow().exotic, tsrun::value::ExoticObject::Function(_)) {
                return "function".into();
            }
            match tsrun::js_value_to_json(v) {
                Ok(j) => format!("json:{}", j),
                Err(_) => "object(unserialisable)".into(),
            }
        }
    }
}

#[derive(Clone, Debug, PartialEq)]
pub enum RustMode {
    Eval,
    Step,
    Reads(Vec<u32>),
}

pub struct RustSut {
    pub interp: Interpreter,
    mode: RustMode,
    log: Rc<RefCell<Vec<String>>>,
    outstanding: BTreeMap<u64, RuntimeValue>,
    /// earlier results kept alive by the host (order payloads) and read back through api::*
    kept: Vec<RuntimeValue>,
    steps: u64,
    reads: u64,
    cursor: usize,
    next_read_at: u64,
}

impl RustSut {
    pub fn new(mode: RustMode, internals: &[(String, String)]) -> RustSut {
        let log = Rc::new(RefCell::new(Vec::new()));
        let mut interp = new_interp(&log);
        for (spec, src) in internals {
            interp.register_internal_module(InternalModule::source(spec.clone(), src.clone()));
        }
        RustSut { interp, mode, log, outstanding: BTreeMap::new(), kept: vec![], steps: 0, reads: 0, cursor: 0, next_read_at: 0 }
    }

    fn ev_of(&mut self, r: Result<StepResult, JsError>) -> Ev {
        match r {
            Ok(StepResult::Continue) => Ev::Continue,
            Ok(StepResult::Complete(v)) => Ev::Complete(render_rust(v.value())),
            Ok(StepResult::Done) => Ev::Done,
            Ok(StepResult::NeedImports(reqs)) => Ev::NeedImports(reqs.iter().map(|q| (q.specifier.clone(), q.resolved_path.as_str().to_string(), q.importer.as_ref().map(|p| p.as_str().to_string()))).collect()),
            Ok(StepResult::Suspended { pending, cancelled }) => {
                let mut p = vec![];
                for o in pending {
                    p.push((o.id.0, render_rust(o.payload.value())));
                    if matches!(self.mode, RustMode::Reads(_)) && self.kept.len() < 64 {
                        self.kept.push(o.payload);
                    }
                }
                Ev::Suspended(p, cancelled.iter().map(|c| c.0).collect())
            }
            Err(e) => Ev::Error(e.to_string()),
        }
    }

    /// one burst of host API reads; none of them may change what the program computes
    fn do_reads(&mut self) {
        let sched = match &self.mode {
            RustMode::Reads(s) => s.clone(),
            _ => return,
        };
        if sched.is_empty() {
            return;
        }
        let x = sched[self.cursor % sched.len()];
        self.cursor += 1;
        let gap = 1 + ((x >> 3) % 389) as u64;
        self.next_read_at = self.steps + gap;
        self.reads += 1;
        match x % 8 {
            0 => {
                let s = self.interp.gc_stats();
                assert!(s.live_objects <= s.total_objects, "gc_stats: live > total");
            }
            1 => {
                let _ = self.interp.call_depth();
            }
            2 => self.interp.collect(),
            3 => {
                for n in api::get_export_names(&self.interp) {
                    if let Some(v) = api::get_export(&self.interp, &n) {
                        let _ = render_rust(&v);
                    }
                }
            }
            4 => {
                let n = self.kept.len();
                if n > 0 {
                    let v = self.kept[(x as usize >> 12) % n].value().clone();
                    let _ = api::get_property(&v, "k").map(|p| render_rust(&p));
                    let _ = api::keys(&v);
                    let _ = render_rust(&v);
                }
            }
            5 => {
                self.interp.collect();
                let _ = self.interp.gc_stats();
            }
            6 => {
                let _ = self.interp.get_export("default");
                let _ = self.interp.call_depth();
            }
            _ => {
                let _ = self.interp.gc_stats();
                let _ = self.interp.get_export_names();
            }
        }
    }
}

impl Sut for RustSut {
    fn start(&mut self, src: &str, path: Option<&str>) -> Ev {
        let p = path.map(|p| ModulePath::new(p.to_string()));
        tsrun::verif_hooks::vm_instr_reset();
        let r = if self.mode == RustMode::Eval { self.interp.eval(src, p) } else { self.interp.prepare(src, p) };
        let ev = self.ev_of(r);
        self.do_reads();
        ev
    }
    fn advance(&mut self) -> Ev {
        let reading = matches!(self.mode, RustMode::Reads(_));
        loop {
            if reading && self.steps >= self.next_read_at {
                self.do_reads();
            }
            self.steps += 1;
            if self.steps > STEP_BUDGET {
                return Ev::Budget;
            }
            tsrun::verif_hooks::vm_instr_reset();
            let r = self.interp.step();
            match self.ev_of(r) {
                Ev::Continue => {}
                other => {
                    if reading {
                        // a burst right at the hand-over to the host
                        self.do_reads();
                        self.do_reads();
                    }
                    return other;
                }
            }
        }
    }
    fn provide(&mut self, path: &str, src: &str) -> Result<(), String> {
        self.interp.provide_module(ModulePath::new(path.to_string()), src).map_err(|e| e.to_string())
    }
    fn fulfill(&mut self, responses: Vec<(u64, Resp)>) {
        let mut out = vec![];
        for (id, r) in responses {
            let result = match r {
                Resp::Num(n) => Ok(RuntimeValue::unguarded(JsValue::Number(n))),
                Resp::Str(s) => Ok(RuntimeValue::unguarded(JsValue::String(tsrun::JsString::from(s)))),
                Resp::Obj(j) => api::create_response_object(&mut self.interp, &j),
                Resp::Err(m) => Err(JsError::type_error(m)),
                Resp::Deferred(_) => {
                    let p = api::create_order_promise(&mut self.interp, OrderId(id));
                    let handle = RuntimeValue::unguarded(p.value().clone());
                    self.outstanding.insert(id, p);
                    Ok(handle)
                }
            };
            out.push(OrderResponse { id: OrderId(id), result });
        }
        self.interp.fulfill_orders(out);
        self.do_reads();
    }
    fn settle(&mut self, id: u64, value: f64) -> Result<(), String> {
        let p = self.outstanding.remove(&id).ok_or_else(|| "no such outstanding promise".to_string())?;
        api::resolve_promise(&mut self.interp, &p, RuntimeValue::unguarded(JsValue::Number(value))).map_err(|e| e.to_string())
    }
    fn exports(&mut self) -> Vec<(String, String)> {
        let mut names = api::get_export_names(&self.interp);
        names.sort();
        names.into_iter().map(|n| { let v = api::get_export(&self.interp, &n).map(|v| render_rust(&v)).unwrap_or_else(|| "undefined".into()); (n, v) }).collect()
    }
    fn log(&self) -> Vec<String> {
        self.log.borrow().clone()
    }
    fn steps(&self) -> u64 {
        self.steps
    }
    fn reads(&self) -> u64 {
        self.reads
    }
}

// ---- C API ------------------------------------------------------------------------------------
extern "C" fn c19_console(level: TsRunConsoleLevel, message: *const c_char, message_len: usize, userdata: *mut c_void) {
    if userdata.is_null() || level == TsRunConsoleLevel::Clear {
        return;
    }
    // SAFETY: userdata is the Box<RefCell<Vec<String>>> owned by the CSut that registered this callback
    let log = unsafe { &*(userdata as *const RefCell<Vec<String>>) };
    let bytes = if message.is_null() { &[][..] } else { unsafe { std::slice::from_raw_parts(message as *const u8, message_len) } };
    let mut v = log.borrow_mut();
    if v.len() < 20000 {
        v.push(String::from_utf8_lossy(bytes).into_owned());
    }
}

fn cstr(s: &str) -> CString {
    CString::new(s.replace('\0', "")).unwrap_or_default()
}

fn c_text(p: *const c_char) -> String {
    if p.is_null() { String::new() } else { unsafe { CStr::from_ptr(p) }.to_string_lossy().into_owned() }
}

pub struct CSut {
    ctx: *mut TsRunContext,
    run_mode: bool,
    log: Box<RefCell<Vec<String>>>,
    outstanding: BTreeMap<u64, *mut TsRunValue>,
    steps: u64,
    reads: u64,
}

impl CSut {
    pub fn new(run_mode: bool) -> CSut {
        let log = Box::new(RefCell::new(Vec::new()));
        let ctx = unsafe { tsrun_new() };
        unsafe {
            tsrun_set_console(ctx, Some(c19_console), (&*log) as *const RefCell<Vec<String>> as *mut c_void);
        }
        CSut { ctx, run_mode, log, outstanding: BTreeMap::new(), steps: 0, reads: 0 }
    }

    fn render(&self, v: *mut TsRunValue) -> String {
        unsafe {
            if v.is_null() || tsrun_is_undefined(v) {
                "undefined".into()
            } else if tsrun_is_null(v) {
                "null".into()
            } else if tsrun_is_boolean(v) {
                format!("{}", tsrun_get_bool(v))
            } else if tsrun_is_number(v) {
                format!("num:{}", fmt_f64(tsrun_get_number(v)))
            } else if tsrun_is_string(v) {
                // a C string cannot carry U+0000 (tsrun_get_string returns NULL for such a value): read the
                // text through the JSON form, which escapes it; the plain getter is still exercised
                let p = tsrun_get_string(v);
                let n = tsrun_get_string_len(v);
                let s = tsrun_json_stringify(self.ctx, v);
                let via_json: Option<String> = if s.is_null() { None } else { let t = c_text(s); tsrun_free_string(s); serde_json::from_str::<String>(&t).ok() };
                match via_json {
                    Some(t) => {
                        if !p.is_null() && !t.contains('\0') {
                            let bytes = std::slice::from_raw_parts(p as *const u8, n);
                            assert!(bytes == t.as_bytes(), "tsrun_get_string/tsrun_get_string_len disagree with the JSON form of the same string");
                        }
                        format!("str:{}", t)
                    }
                    None => "str:<unreadable>".into(),
                }
            } else if tsrun_is_function(v) {
                "function".into()
            } else if tsrun_is_object(v) {
                let s = tsrun_json_stringify(self.ctx, v);
                if s.is_null() {
                    "object(unserialisable)".into()
                } else {
                    let t = c_text(s);
                    tsrun_free_string(s);
                    format!("json:{}", t)
                }
            } else {
                "symbol".into()
            }
        }
    }

    fn convert(&mut self, r: &mut TsRunStepResult) -> Ev {
        let ev = match r.status {
            TsRunStepStatus::Continue => Ev::Continue,
            TsRunStepStatus::Complete => {
                let s = self.render(r.value);
                if !r.value.is_null() {
                    unsafe { tsrun_value_free(r.value) };
                }
                Ev::Complete(s)
            }
            TsRunStepStatus::Done => Ev::Done,
            TsRunStepStatus::Error => Ev::Error(c_text(r.error)),
            TsRunStepStatus::NeedImports => {
                let mut v = vec![];
                for i in 0..r.import_count {
                    let q = unsafe { &*r.imports.add(i) };
                    v.push((c_text(q.specifier), c_text(q.resolved_path), if q.importer.is_null() { None } else { Some(c_text(q.importer)) }));
                }
                Ev::NeedImports(v)
            }
            TsRunStepStatus::Suspended => {
                let mut p = vec![];
                for i in 0..r.pending_count {
                    let o = unsafe { &*r.pending_orders.add(i) };
                    // the payload handle is "owned by the context" (tsrun.h): read, never freed by the host
                    p.push((o.id, self.render(o.payload)));
                }
                let mut c = vec![];
                for i in 0..r.cancelled_count {
                    c.push(unsafe { *r.cancelled_orders.add(i) });
                }
                Ev::Suspended(p, c)
            }
        };
        unsafe { tsrun_step_result_free(r as *mut TsRunStepResult) };
        ev
    }
}

impl Drop for CSut {
    fn drop(&mut self) {
        unsafe {
            for (_, p) in std::mem::take(&mut self.outstanding) {
                tsrun_value_free(p);
            }
            tsrun_free(self.ctx);
        }
    }
}

impl Sut for CSut {
    fn start(&mut self, src: &str, path: Option<&str>) -> Ev {
        let code = cstr(src);
        let p = path.map(cstr);
        let r = unsafe { tsrun_prepare(self.ctx, code.as_ptr(), p.as_ref().map(|c| c.as_ptr()).unwrap_or(std::ptr::null())) };
        if r.ok { Ev::Continue } else { Ev::Error(c_text(r.error)) }
    }
    fn advance(&mut self) -> Ev {
        loop {
            let mut r = TsRunStepResult::default();
            self.steps += 1;
            unsafe {
                if self.run_mode {
                    tsrun_run(&mut r as *mut TsRunStepResult, self.ctx);
                } else {
                    tsrun_step(&mut r as *mut TsRunStepResult, self.ctx);
                }
            }
            if !self.run_mode && self.steps % 4096 == 0 {
                let s = unsafe { tsrun_gc_stats(self.ctx) };
                assert!(s.live_objects <= s.total_objects, "tsrun_gc_stats: live > total");
                self.reads += 1;
            }
            if self.steps > STEP_BUDGET * 2 {
                return Ev::Budget;
            }
            match self.convert(&mut r) {
                Ev::Continue => {}
                other => return other,
            }
        }
    }
    fn provide(&mut self, path: &str, src: &str) -> Result<(), String> {
        let p = cstr(path);
        let c = cstr(src);
        let r = unsafe { tsrun_provide_module(self.ctx, p.as_ptr(), c.as_ptr()) };
        if r.ok { Ok(()) } else { Err(c_text(r.error)) }
    }
    fn fulfill(&mut self, responses: Vec<(u64, Resp)>) {
        let mut arr: Vec<TsRunOrderResponse> = vec![];
        let mut owned_err: Vec<CString> = vec![];
        let mut to_free: Vec<*mut TsRunValue> = vec![];
        for (id, r) in responses {
            let mut value: *mut TsRunValue = std::ptr::null_mut();
            let mut error: *const c_char = std::ptr::null();
            unsafe {
                match r {
                    Resp::Num(n) => {
                        value = tsrun_number(self.ctx, n);
                        to_free.push(value);
                    }
                    Resp::Str(s) => {
                        let c = cstr(&s);
                        value = tsrun_string(self.ctx, c.as_ptr());
                        to_free.push(value);
                    }
                    Resp::Obj(j) => {
                        let c = cstr(&j.to_string());
                        let vr = tsrun_json_parse(self.ctx, c.as_ptr());
                        value = vr.value;
                        if !value.is_null() {
                            to_free.push(value);
                        }
                    }
                    Resp::Err(m) => {
                        owned_err.push(cstr(&m));
                        error = owned_err.last().map(|c| c.as_ptr()).unwrap_or(std::ptr::null());
                    }
                    Resp::Deferred(_) => {
                        let vr = tsrun_create_order_promise(self.ctx, id);
                        value = vr.value;
                        if !value.is_null() {
                            self.outstanding.insert(id, value);
                        }
                    }
                }
            }
            arr.push(TsRunOrderResponse { id, value, error });
        }
        unsafe {
            tsrun_fulfill_orders(self.ctx, arr.as_ptr(), arr.len());
            // as in examples/c-embedding/async_orders.c: response values are released right after fulfilment
            for v in to_free {
                tsrun_value_free(v);
            }
        }
    }
    fn settle(&mut self, id: u64, value: f64) -> Result<(), String> {
        let p = self.outstanding.remove(&id).ok_or_else(|| "no such outstanding promise".to_string())?;
        unsafe {
            let v = tsrun_number(self.ctx, value);
            let r = tsrun_resolve_promise(self.ctx, p, v);
            let res = if r.ok { Ok(()) } else { Err(c_text(r.error)) };
            tsrun_value_free(v);
            tsrun_value_free(p);
            res
        }
    }
    fn exports(&mut self) -> Vec<(String, String)> {
        let mut out = vec![];
        unsafe {
            let mut n: usize = 0;
            let names = tsrun_get_export_names(self.ctx, &mut n as *mut usize);
            let mut list = vec![];
            if !names.is_null() {
                for i in 0..n {
                    list.push(c_text(*names.add(i)));
                }
                tsrun_free_strings(names, n);
            }
            list.sort();
            for name in list {
                let c = cstr(&name);
                let vr = tsrun_get_export(self.ctx, c.as_ptr());
                let s = self.render(vr.value);
                if !vr.value.is_null() {
                    tsrun_value_free(vr.value);
                }
                out.push((name, s));
            }
        }
        out
    }
    fn log(&self) -> Vec<String> {
        self.log.borrow().clone()
    }
    fn steps(&self) -> u64 {
        self.steps
    }
    fn reads(&self) -> u64 {
        self.reads
    }
}

// ---------------------------------------------------------------------------------------------
// the scripted host (identical for every entry point)
// ---------------------------------------------------------------------------------------------
pub struct HostScript<'a> {
    pub modules: &'a BTreeMap<String, String>,
    pub kinds: &'a BTreeMap<String, String>,
}

fn describe(ev: &Ev) -> String {
    match ev {
        Ev::Continue => "continue".into(),
        Ev::Complete(v) => format!("complete:{}", v),
        Ev::Done => "done".into(),
        Ev::NeedImports(reqs) => {
            let v: Vec<String> = reqs.iter().map(|(s, r, i)| format!("{}=>{}<-{}", s, r, i.clone().unwrap_or_else(|| "-".into()))).collect();
            format!("needimports[{}]", v.join(","))
        }
        Ev::Suspended(p, c) => {
            let p: Vec<String> = p.iter().map(|(id, r)| format!("{}:{}", id, r)).collect();
            let c: Vec<String> = c.iter().map(|c| c.to_string()).collect();
            format!("suspended[pending {}][cancelled {}]", p.join(","), c.join(","))
        }
        Ev::Error(t) => format!("error:{}", error_class_of_text(t)),
        Ev::Budget => "budget".into(),
    }
}

/// Continue one started run to its end. `first` is the result of `start`.
pub fn run_host(sut: &mut dyn Sut, first: Ev, host: &HostScript, obs: &mut Obs) {
    let mut ev = first;
    let mut outstanding: VecDeque<(u64, f64)> = VecDeque::new();
    let mut rounds = 0usize;
    let mut idle = 0usize;
    loop {
        if matches!(ev, Ev::Continue) {
            ev = sut.advance();
            continue;
        }
        obs.trace.push(describe(&ev));
        match &ev {
            Ev::Continue => {}
            Ev::Complete(v) => {
                obs.end = format!("complete:{}", v);
                break;
            }
            Ev::Done => {
                obs.end = "done".into();
                break;
            }
            Ev::Budget => {
                obs.end = "budget".into();
                break;
            }
            Ev::Error(t) => {
                obs.end = format!("error:{}", error_class_of_text(t));
                obs.err_text = t.clone();
                break;
            }
            Ev::NeedImports(reqs) => {
                obs.import_rounds += 1;
                let mut bad = None;
                for (_, resolved, _) in reqs {
                    match host.modules.get(resolved) {
                        Some(src) => {
                            if let Err(e) = sut.provide(resolved, src) {
                                bad = Some(format!("provide-error:{}:{}", resolved, error_class_of_text(&e)));
                                break;
                            }
                        }
                        None => {
                            bad = Some(format!("unsatisfied-import:{}", resolved));
                            break;
                        }
                    }
                }
                if let Some(b) = bad {
                    obs.end = b;
                    break;
                }
            }
            Ev::Suspended(pending, _) => {
                obs.suspensions += 1;
                if !pending.is_empty() {
                    let mut rs = vec![];
                    for (id, payload) in pending {
                        let r = response_for(payload, host.kinds);
                        if let Resp::Deferred(v) = r {
                            outstanding.push_back((*id, v));
                        }
                        rs.push((*id, r));
                    }
                    sut.fulfill(rs);
                    idle = 0;
                } else if let Some((id, v)) = outstanding.pop_front() {
                    if let Err(e) = sut.settle(id, v) {
                        obs.end = format!("settle-error:{}", e);
                        break;
                    }
                    idle = 0;
                } else {
                    // nothing to answer and nothing to settle: a context may already be ready (its promise was
                    // resolved by the program itself), so step once more; twice in a row = nobody can make progress
                    idle += 1;
                    if idle >= 2 {
                        obs.end = "stuck".into();
                        break;
                    }
                }
            }
        }
        rounds += 1;
        if rounds > MAX_ROUNDS {
            obs.end = "rounds".into();
            break;
        }
        ev = sut.advance();
    }
}

fn finish(sut: &mut dyn Sut, obs: &mut Obs) {
    if obs.end.starts_with("complete:") || obs.end.starts_with("error:") {
        // a finished run has nothing left to step
        let after = sut.advance();
        obs.trace.push(format!("after-end:{}", describe(&after)));
    }
    obs.exports = sut.exports();
    obs.log = sut.log();
    obs.steps = sut.steps();
    obs.reads = sut.reads();
}

pub fn run_entry_rust(mode: RustMode, src: &str, path: Option<&str>, host: &HostScript, internals: &[(String, String)]) -> Obs {
    reset_hooks();
    let mut obs = Obs::default();
    let r = guarded(|| {
        let mut o = Obs::default();
        let mut sut = RustSut::new(mode.clone(), internals);
        tsrun::verif_hooks::vm_instr_set_limit(if mode == RustMode::Eval { 400_000_000 } else { 50_000_000 });
        let first = sut.start(src, path);
        run_host(&mut sut, first, host, &mut o);
        tsrun::verif_hooks::vm_instr_set_limit(0);
        finish(&mut sut, &mut o);
        o
    });
    tsrun::verif_hooks::vm_instr_set_limit(0);
    match r {
        Ok(o) => obs = o,
        Err(p) => {
            if p.contains("verif: vm work limit") {
                obs.end = "budget".into();
            } else {
                obs.end = "panic".into();
                obs.panic = Some(p);
            }
        }
    }
    obs
}

pub fn run_entry_c(run_mode: bool, src: &str, path: Option<&str>, host: &HostScript) -> Obs {
    reset_hooks();
    let mut o = Obs::default();
    let mut sut = CSut::new(run_mode);
    let first = sut.start(src, path);
    run_host(&mut sut, first, host, &mut o);
    finish(&mut sut, &mut o);
    o
}

// ---------------------------------------------------------------------------------------------
// comparison
// ---------------------------------------------------------------------------------------------
fn first_diff<T: PartialEq + std::fmt::Debug>(a: &[T], b: &[T]) -> String {
    for i in 0..a.len().max(b.len()) {
        if a.get(i) != b.get(i) {
            let clip = |x: Option<&T>| -> String { format!("{:?}", x).chars().take(220).collect() };
            return format!("at #{}: {} vs {}", i, clip(a.get(i)), clip(b.get(i)));
        }
    }
    "equal".into()
}

/// None when equal; otherwise (aspect, detail)
pub fn compare(a: &Obs, b: &Obs) -> Option<(&'static str, String)> {
    if a.kinds() != b.kinds() {
        return Some(("result-kinds", first_diff(&a.kinds(), &b.kinds())));
    }
    if a.imports() != b.imports() {
        return Some(("import-requests", first_diff(&a.imports(), &b.imports())));
    }
    if a.orders() != b.orders() {
        return Some(("order-traffic", first_diff(&a.orders(), &b.orders())));
    }
    if a.end != b.end {
        return Some(("completion", format!("{:?} vs {:?}", a.end.chars().take(200).collect::<String>(), b.end.chars().take(200).collect::<String>())));
    }
    if a.err_text != b.err_text {
        return Some(("error-text", format!("{:?} vs {:?}", a.err_text.chars().take(200).collect::<String>(), b.err_text.chars().take(200).collect::<String>())));
    }
    if a.log != b.log {
        return Some(("console", format!("{} vs {} lines, {}", a.log.len(), b.log.len(), first_diff(&a.log, &b.log))));
    }
    if a.exports != b.exports {
        let an: Vec<&String> = a.exports.iter().map(|(k, _)| k).collect();
        let bn: Vec<&String> = b.exports.iter().map(|(k, _)| k).collect();
        if an != bn {
            return Some(("export-names", format!("{:?} vs {:?}", an, bn).chars().take(300).collect()));
        }
        return Some(("export-values", first_diff(&a.exports, &b.exports)));
    }
    None
}

fn strs(v: &Value) -> Vec<String> {
    v.as_array().map(|a| a.iter().filter_map(|x| x.as_str().map(|s| s.to_string())).collect()).unwrap_or_default()
}
fn str_map(v: &Value) -> BTreeMap<String, String> {
    v.as_object().map(|m| m.iter().filter_map(|(k, v)| v.as_str().map(|s| (k.clone(), s.to_string()))).collect()).unwrap_or_default()
}

fn gate_counters(case: &Value) -> Vec<(String, u64)> {
    case["excluded"].as_object().map(|m| m.iter().map(|(k, v)| (format!("excluded_by_gate:{}", k), v.as_u64().unwrap_or(0))).collect()).unwrap_or_default()
}

const NONDET: [&str; 4] = ["Math.random", "Date.now", "new Date()", "performance."];

fn exec_entry(case: &Value) -> Exec {
    let src = case["src"].as_str().unwrap_or("").to_string();
    let path = case["path"].as_str().map(|s| s.to_string());
    let modules = str_map(&case["modules"]);
    let kinds = str_map(&case["kinds"]);
    let reads: Vec<u32> = case["reads"].as_array().map(|a| a.iter().map(|x| x.as_u64().unwrap_or(0) as u32).collect()).unwrap_or_default();
    let tags = strs(&case["tags"]);
    if NONDET.iter().any(|n| src.contains(n) || modules.values().any(|m| m.contains(n))) {
        return Exec::discard("uses clock/random (the C API context has its own providers)");
    }
    let host = HostScript { modules: &modules, kinds: &kinds };
    let p = path.as_deref();
    let internals: Vec<(String, String)> = str_map(&case["internals"]).into_iter().collect();
    let base = run_entry_rust(RustMode::Step, &src, p, &host, &internals);
    if base.end == "budget" || base.end == "rounds" {
        return Exec::discard("budget");
    }
    if base.end == "panic" {
        return Exec::discard(format!("panic (C01/C05/C06 business): {}", base.panic.clone().unwrap_or_default().chars().take(80).collect::<String>()));
    }
    let mut all: Vec<(&'static str, Obs)> = vec![("prepare+step", base)];
    let reads = if reads.is_empty() { vec![3, 18, 45, 2, 64, 7] } else { reads };
    for (name, mode) in [("eval+step", RustMode::Eval), ("step+reads", RustMode::Reads(reads))] {
        let o = run_entry_rust(mode, &src, p, &host, &internals);
        if o.end == "budget" {
            return Exec::discard("budget");
        }
        all.push((name, o));
    }
    let rust_panicked = all.iter().any(|(_, o)| o.end == "panic");
    if !rust_panicked && internals.is_empty() {
        // only now is it safe to cross the extern "C" boundary (a panic there would abort the worker)
        all.push(("c:prepare+run", run_entry_c(true, &src, p, &host)));
        all.push(("c:prepare+step", run_entry_c(false, &src, p, &host)));
    }
    let observed = |all: &Vec<(&'static str, Obs)>| -> Value { Value::Object(all.iter().map(|(n, o)| (n.to_string(), o.to_json())).collect()) };
    for i in 1..all.len() {
        if all[i].1.end == "panic" {
            let mut e = Exec::fail(format!("c19:entry:{}:panic", all[i].0), format!("entry point {} panicked where prepare+step did not: {}", all[i].0, all[i].1.panic.clone().unwrap_or_default()));
            e.observed = observed(&all);
            return e.with_tags(tags);
        }
        if let Some((aspect, detail)) = compare(&all[0].1, &all[i].1) {
            let mut e = Exec::fail(format!("c19:entry:{}:{}", all[i].0, aspect), format!("{} differs between prepare+step and {}: {}", aspect, all[i].0, detail));
            e.observed = observed(&all);
            return e.with_tags(tags);
        }
    }
    // closed form: a completed run of a module has every name the generator exported (the self-differential
    // cannot see a loss that every entry point suffers alike)
    if all[0].1.end.starts_with("complete:") {
        let have: Vec<&String> = all[0].1.exports.iter().map(|(k, _)| k).collect();
        let missing: Vec<String> = strs(&case["expected_exports"]).into_iter().filter(|n| !have.contains(&n)).collect();
        if !missing.is_empty() {
            let mut e = Exec::fail("c19:entry:closed-form:export-missing", format!("the module completed but its export table lacks {:?} (has {:?}) on every entry point", missing, have));
            e.observed = observed(&all);
            return e.with_tags(tags);
        }
    }
    let b = &all[0].1;
    let is_module = path.is_some();
    let has_orders = b.suspensions > 0;
    let has_imports = b.import_rounds > 0 || (!internals.is_empty() && src.contains("from \"int:lib\""));
    let nontrivial = if is_module { !b.exports.is_empty() && (has_orders || has_imports) } else { has_orders };
    let mut e = Exec::pass(nontrivial);
    e.observed = json!({"end": b.end.chars().take(160).collect::<String>(), "trace_kinds": b.kinds(), "exports": b.exports.len(), "steps": b.steps, "reads": all[2].1.reads, "entry_points": all.len()});
    if std::env::var("C19_DEBUG").is_ok() {
        // inspection aid for hand-written cases (verif one): the full observation of the reference entry point
        e.observed["reference"] = b.to_json();
    }
    let mut tags = tags;
    tags.push(format!("end:{}", b.end.split(':').next().unwrap_or("")));
    tags.push(if is_module { "program:module".into() } else { "program:script".into() });
    if has_orders {
        tags.push("has:orders".into());
    }
    if has_imports {
        tags.push("has:host-imports".into());
    }
    if !internals.is_empty() {
        tags.push("has:internal-source-import(rust-entry-points-only)".into());
    }
    if !b.exports.is_empty() {
        tags.push("has:exports".into());
    }
    if b.trace.iter().any(|t| t.contains("[cancelled ") && !t.contains("[cancelled ]")) {
        tags.push("has:cancelled".into());
    }
    if b.trace.iter().any(|t| t.starts_with("suspended[pending ]")) {
        tags.push("has:empty-suspension".into());
    }
    e.tags = tags;
    e.counters = vec![
        ("suspensions".into(), b.suspensions),
        ("import_rounds".into(), b.import_rounds),
        ("host_reads".into(), all[2].1.reads),
        ("entry_point_runs".into(), all.len() as u64),
        ("exports_compared".into(), b.exports.len() as u64),
    ];
    e.counters.extend(gate_counters(case));
    e
}

// ---------------------------------------------------------------------------------------------
// module roles
// ---------------------------------------------------------------------------------------------
#[derive(Clone, Debug, Default)]
struct RoleObs {
    /// the importer's run
    run: Obs,
    /// role "main" only: the module's own run and the host's view of its exports
    own: Option<Obs>,
}

fn run_role(role: &str, case: &Value) -> RoleObs {
    let m_src = case["m"].as_str().unwrap_or("").to_string();
    let importer = case["importer"].as_str().unwrap_or("").to_string();
    let mut modules = str_map(&case["modules"]);
    let kinds = str_map(&case["kinds"]);
    let internals: Vec<(String, String)> = str_map(&case["internals"]).into_iter().collect();
    reset_hooks();
    let r = guarded(|| {
        let mut out = RoleObs::default();
        tsrun::verif_hooks::vm_instr_set_limit(400_000_000);
        match role {
            "main" => {
                let host = HostScript { modules: &modules, kinds: &kinds };
                let mut sut = RustSut::new(RustMode::Step, &internals);
                let mut own = Obs::default();
                let first = sut.start(&m_src, Some("/m.ts"));
                run_host(&mut sut, first, &host, &mut own);
                finish(&mut sut, &mut own);
                let ok = own.end.starts_with("complete");
                out.own = Some(own);
                if ok {
                    // second run on the same interpreter: the importer sees the entry module's namespace
                    let imp = importer.replace("__M__", "./m.ts");
                    let mut o = Obs::default();
                    let first = sut.start(&imp, Some("/imp.ts"));
                    run_host(&mut sut, first, &host, &mut o);
                    o.log = sut.log();
                    o.steps = sut.steps();
                    out.run = o;
                } else if let Some(own) = &out.own {
                    out.run = own.clone();
                    out.run.exports.clear();
                }
            }
            "provided" => {
                modules.insert("/m.ts".to_string(), m_src.clone());
                let host = HostScript { modules: &modules, kinds: &kinds };
                let mut sut = RustSut::new(RustMode::Step, &internals);
                let imp = importer.replace("__M__", "./m.ts");
                let mut o = Obs::default();
                let first = sut.start(&imp, Some("/imp.ts"));
                run_host(&mut sut, first, &host, &mut o);
                o.log = sut.log();
                o.steps = sut.steps();
                out.run = o;
            }
            _ => {
                let mut ints = internals.clone();
                ints.push(("int:m".to_string(), m_src.clone()));
                let host = HostScript { modules: &modules, kinds: &kinds };
                let mut sut = RustSut::new(RustMode::Step, &ints);
                let imp = importer.replace("__M__", "int:m");
                let mut o = Obs::default();
                let first = sut.start(&imp, Some("/imp.ts"));
                run_host(&mut sut, first, &host, &mut o);
                o.log = sut.log();
                o.steps = sut.steps();
                out.run = o;
            }
        }
        tsrun::verif_hooks::vm_instr_set_limit(0);
        out
    });
    tsrun::verif_hooks::vm_instr_set_limit(0);
    match r {
        Ok(o) => o,
        Err(p) => {
            let mut o = RoleObs::default();
            if p.contains("verif: vm work limit") {
                o.run.end = "budget".into();
            } else {
                o.run.end = "panic".into();
                o.run.panic = Some(p);
            }
            o
        }
    }
}

/// order traffic without the ids (a second run on one interpreter continues the id counter)
fn orders_no_ids(o: &Obs) -> Vec<String> {
    o.orders()
        .iter()
        .map(|t| {
            let mut out = String::new();
            let mut rest = t.as_str();
            // "suspended[pending 3:json..,4:..][cancelled ]": drop "<digits>:" after "pending " and after ","
            if let Some(i) = rest.find("[pending ") {
                out.push_str(&rest[..i + 9]);
                rest = &rest[i + 9..];
                let d = rest.chars().take_while(|c| c.is_ascii_digit()).count();
                if rest[d..].starts_with(':') {
                    rest = &rest[d + 1..];
                }
            }
            out.push_str(rest);
            out
        })
        .collect()
}

fn exec_role(case: &Value) -> Exec {
    let tags = strs(&case["tags"]);
    let roles = {
        let r = strs(&case["roles"]);
        if r.is_empty() { vec!["main".to_string(), "provided".to_string(), "internal".to_string()] } else { r }
    };
    let m_src = case["m"].as_str().unwrap_or("");
    if NONDET.iter().any(|n| m_src.contains(n)) {
        return Exec::discard("uses clock/random");
    }
    let mut obs: Vec<(String, RoleObs)> = vec![];
    for r in &roles {
        let o = run_role(r, case);
        if o.run.end == "budget" || o.run.end == "rounds" {
            return Exec::discard("budget");
        }
        obs.push((r.clone(), o));
    }
    let observed = |obs: &Vec<(String, RoleObs)>| -> Value {
        Value::Object(obs.iter().map(|(n, o)| (n.clone(), json!({"importer_run": o.run.to_json(), "own_run": o.own.as_ref().map(|x| x.to_json())}))).collect())
    };
    if obs[0].1.run.end == "panic" {
        return Exec::discard(format!("panic (C01/C05/C06 business): {}", obs[0].1.run.panic.clone().unwrap_or_default().chars().take(80).collect::<String>()));
    }
    let fail = |sig: String, msg: String, obs: &Vec<(String, RoleObs)>, tags: &Vec<String>| -> Exec {
        let mut e = Exec::fail(sig, msg);
        e.observed = observed(obs);
        e.with_tags(tags.clone())
    };
    let own_failed = obs[0].0 == "main" && obs[0].1.own.as_ref().map(|o| !o.end.starts_with("complete")).unwrap_or(false);
    for i in 1..obs.len() {
        let (a, b) = (&obs[0].1.run, &obs[i].1.run);
        let pair = format!("{}-vs-{}", obs[0].0, obs[i].0);
        if b.end == "panic" {
            return fail(format!("c19:role:{}:panic", pair), format!("role {} panicked: {}", obs[i].0, b.panic.clone().unwrap_or_default()), &obs, &tags);
        }
        if own_failed {
            // the module itself failed as entry module: as a dependency it must fail the importer the same way
            if a.end != b.end {
                return fail(format!("c19:role:{}:failure", pair), format!("module fails as entry module with {:?} but the importer in role {} ends with {:?}", a.end, obs[i].0, b.end.chars().take(160).collect::<String>()), &obs, &tags);
            }
            if a.log != b.log {
                return fail(format!("c19:role:{}:console", pair), format!("console lines differ across roles: {}", first_diff(&a.log, &b.log)), &obs, &tags);
            }
            continue;
        }
        if a.end != b.end {
            return fail(format!("c19:role:{}:namespace", pair), format!("the importer's report of the module namespace differs between role {} and role {}: {}", obs[0].0, obs[i].0, diff_reports(&a.end, &b.end)), &obs, &tags);
        }
        if a.err_text != b.err_text && !(a.err_text.contains("/m.ts") || a.err_text.contains("int:m")) {
            return fail(format!("c19:role:{}:error-text", pair), format!("{:?} vs {:?}", a.err_text, b.err_text), &obs, &tags);
        }
        if a.log != b.log {
            return fail(format!("c19:role:{}:console", pair), format!("console lines differ across roles: {}", first_diff(&a.log, &b.log)), &obs, &tags);
        }
        let (oa, ob) = (orders_no_ids(a), orders_no_ids(b));
        let oa_all: Vec<String> = if obs[0].0 == "main" { obs[0].1.own.as_ref().map(orders_no_ids).unwrap_or_default().into_iter().chain(oa.into_iter()).collect() } else { oa };
        if oa_all != ob {
            return fail(format!("c19:role:{}:order-traffic", pair), format!("order traffic differs across roles: {}", first_diff(&oa_all, &ob)), &obs, &tags);
        }
    }
    // host view of the entry module (read when its own run has completed, before any other run starts) == importer's view:
    // names, and the values of primitive and function exports before the importer calls anything
    let mut host_view_checked = 0u64;
    if obs[0].0 == "main" && !own_failed {
        if let (Some(own), Some(rep)) = (obs[0].1.own.as_ref(), obs[0].1.run.end.strip_prefix("complete:json:").and_then(|t| serde_json::from_str::<Value>(t).ok())) {
            let host_names: Vec<String> = own.exports.iter().map(|(k, _)| k.clone()).collect();
            let imp_names = strs(&rep["names"]);
            if host_names != imp_names {
                return fail("c19:role:host-view:names".into(), format!("get_export_names() of the entry module {:?} differs from Object.keys(namespace) seen by an importer {:?}", host_names, imp_names), &obs, &tags);
            }
            for (k, v) in &own.exports {
                host_view_checked += 1;
                let imp_v = &rep["before"][k];
                let host_j: Option<Value> = if v == "function" {
                    Some(json!("function"))
                } else if v.starts_with("json:") {
                    // object values are compared role against role only: the importer's snapshot holds references,
                    // so a later call may already have changed the object when the report is rendered
                    None
                } else if let Some(t) = v.strip_prefix("str:") {
                    Some(json!(t))
                } else if let Some(t) = v.strip_prefix("num:") {
                    t.parse::<f64>().ok().filter(|f| f.is_finite()).map(|f| json!(f))
                } else if v == "true" || v == "false" {
                    Some(json!(v == "true"))
                } else if v == "null" {
                    Some(Value::Null)
                } else {
                    None
                };
                if let Some(h) = host_j {
                    let same = match (&h, imp_v) {
                        (Value::Number(a), Value::Number(b)) => a.as_f64() == b.as_f64(),
                        (a, b) => a == b,
                    };
                    if !same {
                        return fail("c19:role:host-view:values".into(), format!("get_export({:?}) of the entry module is {} but an importer reads {}", k, h, imp_v), &obs, &tags);
                    }
                }
            }
        }
    }
    let rep = obs[0].1.run.end.strip_prefix("complete:json:").and_then(|t| serde_json::from_str::<Value>(t).ok()).unwrap_or(Value::Null);
    // closed form: every name the generator exported is in the namespace the importer sees (all roles agree by now)
    // and in the host's view of the entry module
    if !own_failed && rep["names"].is_array() {
        let have = strs(&rep["names"]);
        let expected = strs(&case["expected_exports"]);
        let missing: Vec<String> = expected.iter().filter(|n| !have.contains(n)).cloned().collect();
        if !missing.is_empty() {
            return fail("c19:role:closed-form:export-missing".into(), format!("the module loaded but its namespace lacks {:?} (has {:?}) in every role", missing, have), &obs, &tags);
        }
        if let Some(own) = obs[0].1.own.as_ref().filter(|o| o.end.starts_with("complete:")) {
            let host: Vec<&String> = own.exports.iter().map(|(k, _)| k).collect();
            let missing: Vec<String> = expected.iter().filter(|n| !host.contains(n)).cloned().collect();
            if !missing.is_empty() {
                return fail("c19:role:closed-form:host-export-missing".into(), format!("get_export_names() of the completed entry module lacks {:?} (has {:?})", missing, host), &obs, &tags);
            }
        }
    }
    let n_exports = rep["names"].as_array().map(|a| a.len()).unwrap_or(0);
    let live_changed = rep["before"] != rep["after"];
    let has_imports = case["m_has_imports"].as_bool().unwrap_or(false);
    let has_orders = obs[0].1.run.suspensions > 0 || obs[0].1.own.as_ref().map(|o| o.suspensions > 0).unwrap_or(false);
    let nontrivial = n_exports >= 1 && (has_imports || has_orders);
    let mut e = Exec::pass(nontrivial);
    let mut tags = tags;
    tags.push(format!("roles:{}", roles.len()));
    if live_changed {
        tags.push("role:live-binding-observed".into());
    }
    if own_failed {
        tags.push("role:module-fails".into());
    }
    tags.push(format!("end:{}", obs[0].1.run.end.split(':').next().unwrap_or("")));
    e.tags = tags;
    e.counters = vec![("roles_run".into(), roles.len() as u64), ("role_exports".into(), n_exports as u64), ("host_view_exports_checked".into(), host_view_checked), ("role_suspensions".into(), obs[0].1.run.suspensions)];
    e.counters.extend(gate_counters(case));
    e.observed = json!({"report": obs[0].1.run.end.chars().take(300).collect::<String>(), "roles": roles});
    e
}

fn diff_reports(a: &str, b: &str) -> String {
    let ja = a.strip_prefix("complete:json:").and_then(|t| serde_json::from_str::<Value>(t).ok());
    let jb = b.strip_prefix("complete:json:").and_then(|t| serde_json::from_str::<Value>(t).ok());
    if let (Some(Value::Object(ma)), Some(Value::Object(mb))) = (&ja, &jb) {
        for (k, va) in ma {
            let vb = mb.get(k).cloned().unwrap_or(Value::Null);
            if *va != vb {
                if let (Value::Object(xa), Value::Object(xb)) = (va, &vb) {
                    for (kk, ya) in xa {
                        if Some(ya) != xb.get(kk) {
                            return format!("{}.{}: {} vs {}", k, kk, ya, xb.get(kk).cloned().unwrap_or(Value::Null)).chars().take(300).collect();
                        }
                    }
                }
                return format!("{}: {} vs {}", k, va, vb).chars().take(300).collect();
            }
        }
    }
    format!("{:?} vs {:?}", a.chars().take(150).collect::<String>(), b.chars().take(150).collect::<String>())
}

impl Property for C19Prop {
    fn id(&self) -> &'static str {
        "C19"
    }
    fn rule(&self) -> String {
        c19gen::rule_text()
    }
    fn assumptions(&self) -> Vec<String> {
        vec![
            "the scripted host is the same code for every entry point (one `run_host` over a 5-method Sut trait); its answer to an order is a pure function of the payload".into(),
            "values are rendered through tsrun::js_value_to_json on both the Rust and the C side (tsrun_json_stringify wraps it); JSON conversion itself is C16's subject".into(),
            "dependency modules and internal source modules cannot suspend at top level (documented: they run synchronously), internal source modules import internal modules only; the role cases stay inside that domain".into(),
            "C entry points are run only for programs that did not panic or exhaust the step budget under the Rust entry points (a panic across extern \"C\" aborts the process)".into(),
        ]
    }
    fn plan(&self, tier: Tier) -> Plan {
        Plan { shards: 16, cases_per_shard: tier.pick(6000, 120000), tape_len: tier.pick(700, 1200), watchdog_s: tier.pick(900, 7200) }
    }
    fn generate(&self, tape: &mut Tape, ctx: &Ctx) -> Value {
        c19gen::generate(tape, ctx)
    }
    fn execute(&self, case: &Value, _ctx: &mut Ctx) -> Exec {
        match case["kind"].as_str().unwrap_or("entry") {
            "role" => exec_role(case),
            _ => exec_entry(case),
        }
    }
}
