//! C20 — error reports point at the code that failed.
//!
//! Generator = a LAYOUT ENGINE. Programs are built as token lists (one list per module) with
//! *marks* on the token ranges the oracle needs (the faulting expression, every call expression
//! of the active call chain, the offending token of a syntactic fault). The layout pass then
//! chooses the text between any two tokens from the tape (nothing / spaces / tabs / newline +
//! indentation / blank lines / block comments (single- and multi-line) / line comments, with
//! ASCII, BMP and astral text), the line terminator (LF / CRLF / mixed), a leading BOM, and records the
//! final (line, column) extent of every token: lines 1-based, columns 1-based counted in Unicode
//! scalar values, a tab / '\r' / BOM counts one column, only '\n' ends a line (the convention of
//! `Lexer::advance`, src/lexer.rs). The expectation (closed form) is stored in the case, so that
//! `execute` depends on the rendered case only.
//!
//! Oracle: see `judge_runtime` / `judge_syntax`.

use crate::core::{Ctx, Exec, Plan, Property, Tier};
use crate::engine;
use crate::tape::{splitmix64, Tape};
use serde_json::{json, Map, Value};
use std::cell::RefCell;
use std::collections::BTreeMap;
use std::rc::Rc;
use tsrun::{JsError, ModulePath, StepResult};

pub struct C20Prop;
pub static C20: C20Prop = C20Prop;

/// open known finding: frames are lost when user code is entered from a native (callback, getter)
pub const GATE_NATIVE: &str = "C20-native-callback-frames";

// =============================================================================================
// tokens
// =============================================================================================
#[derive(Clone, Debug, Default)]
struct Tok {
    s: String,
    /// no line terminator may follow (restricted productions: return / throw / before `=>`)
    no_nl_after: bool,
    /// the text after this token must start with a line terminator (unterminated string)
    force_nl_after: bool,
}

#[derive(Clone, Debug, Default)]
struct Src {
    toks: Vec<Tok>,
    marks: BTreeMap<String, (usize, usize)>,
    open: Vec<(String, usize)>,
    /// when set, layout stops after this many tokens (missing-bracket-at-EOF faults)
    truncate_at: Option<usize>,
}

impl Src {
    fn t(&mut self, s: &str) {
        self.toks.push(Tok { s: s.to_string(), ..Tok::default() });
    }
    /// several tokens separated by blanks in `s`
    fn ts(&mut self, s: &str) {
        for w in s.split_ascii_whitespace() {
            self.t(w);
        }
    }
    fn begin(&mut self, id: &str) {
        self.open.push((id.to_string(), self.toks.len()));
    }
    fn end(&mut self, id: &str) {
        if let Some(pos) = self.open.iter().rposition(|(i, _)| i == id) {
            let (_, first) = self.open.remove(pos);
            let last = self.toks.len().saturating_sub(1).max(first);
            self.marks.insert(id.to_string(), (first, last));
        }
    }
}

// =============================================================================================
// program specification
// =============================================================================================
#[derive(Clone, Copy, PartialEq, Eq, Debug)]
enum LK {
    FnDecl,
    FnExprConst,
    NamedFnExpr,
    ArrowBlock,
    ArrowExpr,
    Method,
    MethodInst,
    StaticMethod,
    Ctor,
    ObjMethod,
    ObjFnProp,
    ObjArrowProp,
    IifeFn,
    IifeArrow,
    RecFn,
    NsFn,
    SuperCtor,
    SuperMethod,
    // gated by GATE_NATIVE
    Getter,
    NativeMap,
    NativeForEach,
}
const PLAIN_KINDS: [LK; 16] = [
    LK::FnDecl,
    LK::FnExprConst,
    LK::ArrowBlock,
    LK::Method,
    LK::StaticMethod,
    LK::Ctor,
    LK::ArrowExpr,
    LK::NamedFnExpr,
    LK::MethodInst,
    LK::ObjMethod,
    LK::ObjFnProp,
    LK::ObjArrowProp,
    LK::IifeFn,
    LK::IifeArrow,
    LK::RecFn,
    LK::NsFn,
];
const NATIVE_KINDS: [LK; 3] = [LK::Getter, LK::NativeMap, LK::NativeForEach];

impl LK {
    fn name(self) -> &'static str {
        match self {
            LK::FnDecl => "FnDecl",
            LK::FnExprConst => "FnExprConst",
            LK::NamedFnExpr => "NamedFnExpr",
            LK::ArrowBlock => "ArrowBlock",
            LK::ArrowExpr => "ArrowExpr",
            LK::Method => "Method",
            LK::MethodInst => "MethodInst",
            LK::StaticMethod => "StaticMethod",
            LK::Ctor => "Ctor",
            LK::ObjMethod => "ObjMethod",
            LK::ObjFnProp => "ObjFnProp",
            LK::ObjArrowProp => "ObjArrowProp",
            LK::IifeFn => "IifeFn",
            LK::IifeArrow => "IifeArrow",
            LK::RecFn => "RecFn",
            LK::NsFn => "NsFn",
            LK::SuperCtor => "SuperCtor",
            LK::SuperMethod => "SuperMethod",
            LK::Getter => "Getter",
            LK::NativeMap => "NativeMap",
            LK::NativeForEach => "NativeForEach",
        }
    }
    fn is_native(self) -> bool {
        matches!(self, LK::Getter | LK::NativeMap | LK::NativeForEach)
    }
    fn is_class(self) -> bool {
        matches!(self, LK::Method | LK::MethodInst | LK::StaticMethod | LK::Ctor | LK::SuperCtor | LK::SuperMethod | LK::Getter)
    }
    fn has_block_body(self) -> bool {
        self != LK::ArrowExpr
    }
    /// defined inline at its call site
    fn is_iife(self) -> bool {
        matches!(self, LK::IifeFn | LK::IifeArrow)
    }
    /// the callee takes exactly one argument and has a parameter list a default value can be added to
    fn default_param_ok(self) -> bool {
        !matches!(self, LK::Getter | LK::NativeMap | LK::NativeForEach | LK::RecFn | LK::ArrowExpr)
    }
}

#[derive(Clone, Debug)]
struct Link {
    kind: LK,
    module: usize,
    /// defined inside the body of the calling function (same module only)
    nested: bool,
    /// imported under another name when called from another module
    alias: bool,
    /// `o["m"](p)` instead of `o.m(p)` (object kinds)
    computed_call: bool,
    /// parameter carries a type annotation
    typed: bool,
    /// `export` keyword on the definition (else a trailing `export { .. }`)
    export_inline: bool,
    /// argument shape at the call site
    argv: usize,
    /// RecFn: number of recursive re-entries before the body runs
    reps: usize,
}

#[derive(Clone, Copy, PartialEq, Eq, Debug)]
enum Rt {
    UndefMember,
    CallNonFn,
    Unresolved,
    Tdz,
    NewNonCtor,
    ConstAssign,
    Throw,
    SetUndefMember,
    Destructure,
    BinOp,
    NativeThrow,
    TaggedTemplate,
}
const RT_VARIANTS: [(Rt, usize); 12] = [
    (Rt::UndefMember, 9),
    (Rt::CallNonFn, 6),
    (Rt::Unresolved, 1),
    (Rt::Tdz, 1),
    (Rt::NewNonCtor, 2),
    (Rt::ConstAssign, 1),
    (Rt::Throw, 1),
    (Rt::SetUndefMember, 3),
    (Rt::Destructure, 3),
    (Rt::BinOp, 2),
    (Rt::NativeThrow, 1),
    (Rt::TaggedTemplate, 1),
];
const RT_WEIGHTS: [u32; 12] = [6, 4, 2, 2, 2, 2, 1, 3, 2, 2, 1, 1];
const N_SYN_BASE: usize = 33;
/// broken expressions x syntactic contexts (variants N_SYN_BASE..N_SYN)
const N_SYN_BAD: usize = 7;
const N_SYN_CTX: usize = 40;
const N_SYN: usize = N_SYN_BASE + N_SYN_BAD * N_SYN_CTX;
const N_EMBED: usize = 16; // 14 = default value of a second parameter, 15 = class field initialiser
const N_WRAP: usize = 9; // 0 = none

#[derive(Clone, Copy, Debug, PartialEq, Eq)]
enum Fault {
    Rt(Rt, usize),
    Syn(usize),
}

#[derive(Clone, Debug)]
struct Spec {
    nmods: usize,
    pathset: usize,
    root: usize,
    /// links[n-1] = link n (n = 1..=d); level 0 is the top level of the root module
    links: Vec<Link>,
    fault: Fault,
    /// embedding of the key expression per level 0..=d
    embeds: Vec<usize>,
    /// statement wrappers around the key statement per level
    wraps: Vec<Vec<usize>>,
    /// module-level definitions in chain order (false: deepest first)
    chain_order: bool,
}

impl Spec {
    fn depth(&self) -> usize {
        self.links.len()
    }
    fn module_of_level(&self, n: usize) -> usize {
        if n == 0 {
            self.root
        } else {
            self.links[n - 1].module
        }
    }
    fn kind_of_level(&self, n: usize) -> Option<LK> {
        if n == 0 {
            None
        } else {
            Some(self.links[n - 1].kind)
        }
    }
}

const PATHSETS: [[&str; 3]; 4] = [
    ["/main.ts", "/m1.ts", "/m2.ts"],
    ["/app/main.ts", "/app/lib/m1.ts", "/shared/m2.ts"],
    ["/src/main.ts", "/src/模块/m1.ts", "/src/模块/m2.ts"],
    ["/a/b/c/entry.ts", "/a/helper one.ts", "/a/b/é.ts"],
];
/// relative specifier from module i to module j (i < j) per path set — written by hand, checked
/// against the resolved path the engine requests (a mismatch makes the run end in NeedImports for
/// an unknown module, which is reported as a generator error, never silently).
fn specifier(pathset: usize, from: usize, to: usize) -> &'static str {
    match (pathset, from, to) {
        (0, _, 1) => "./m1.ts",
        (0, _, 2) => "./m2.ts",
        (1, 0, 1) => "./lib/m1.ts",
        (1, 0, 2) => "../shared/m2.ts",
        (1, 1, 2) => "../../shared/m2.ts",
        (2, 0, 1) => "./模块/m1.ts",
        (2, 0, 2) => "./模块/m2.ts",
        (2, 1, 2) => "./m2.ts",
        (3, 0, 1) => "../../helper one.ts",
        (3, 0, 2) => "../é.ts",
        (3, 1, 2) => "./b/é.ts",
        _ => "./missing.ts",
    }
}

// names -------------------------------------------------------------------------------------
fn frame_name(k: LK, n: usize) -> String {
    match k {
        LK::FnDecl | LK::FnExprConst | LK::NamedFnExpr | LK::ArrowBlock | LK::ArrowExpr | LK::NativeMap | LK::NativeForEach | LK::RecFn | LK::NsFn => format!("f{}", n),
        LK::IifeFn | LK::IifeArrow => String::new(),
        LK::Method | LK::MethodInst | LK::SuperMethod | LK::ObjMethod | LK::ObjFnProp | LK::ObjArrowProp => format!("m{}", n),
        LK::StaticMethod => format!("s{}", n),
        LK::Ctor | LK::SuperCtor => format!("C{}", n),
        LK::Getter => format!("g{}", n),
    }
}
/// the binding other code refers to (exported / imported symbol)
fn binding_name(k: LK, n: usize) -> String {
    match k {
        LK::NamedFnExpr => format!("v{}", n),
        LK::NsFn => format!("N{}", n),
        LK::ObjMethod | LK::ObjFnProp | LK::ObjArrowProp => format!("o{}", n),
        k if k.is_class() => format!("C{}", n),
        _ => format!("f{}", n),
    }
}

// =============================================================================================
// spec from the tape
// =============================================================================================
fn plan_spec(tape: &mut Tape, ctx: &Ctx, max_depth: usize, excluded: &mut u64) -> Spec {
    let syntax = tape.chance(1, 4);
    let nmods = 1 + tape.weighted(&[5, 3, 2]);
    let pathset = tape.below(PATHSETS.len());
    let root = if nmods > 1 && tape.chance(1, 5) { tape.below(nmods) } else { 0 };
    // depth: small depths are frequent, the bound is reached regularly
    let d = {
        let w: Vec<u32> = (0..=max_depth).map(|i| if i <= 3 { 6 } else { 3 }).collect();
        tape.weighted(&w)
    };
    let gate_native = ctx.gates.excluded(GATE_NATIVE);
    let mut links: Vec<Link> = Vec::new();
    let mut module = root;
    for n in 1..=d {
        let prev = if n >= 2 { Some(links[n - 2].kind) } else { None };
        // 1. kind
        let mut kind = *tape.pick(&PLAIN_KINDS);
        let special = tape.below(10);
        if special == 9 {
            // native-entered user code (callback of a native, getter)
            let k = *tape.pick(&NATIVE_KINDS);
            if gate_native {
                *excluded += 1;
            } else {
                kind = k;
            }
        } else if special >= 7 {
            match prev {
                Some(LK::Ctor) | Some(LK::SuperCtor) => kind = LK::SuperCtor,
                Some(LK::Method) | Some(LK::MethodInst) | Some(LK::SuperMethod) => kind = LK::SuperMethod,
                _ => {}
            }
        }
        // 2. module: never decreases along the chain (imports point from entry towards helpers)
        if nmods > 1 && module + 1 < nmods && tape.chance(1, 3) {
            module += 1 + tape.below(nmods - module - 1);
        }
        let same_mod_as_caller = module == if n == 1 { root } else { links[n - 2].module };
        let caller_block = prev.map(|k| k.has_block_body()).unwrap_or(true);
        let nested = n >= 2 && same_mod_as_caller && caller_block && !matches!(kind, LK::SuperCtor | LK::SuperMethod | LK::NsFn) && !kind.is_iife() && tape.chance(1, 3);
        // MethodInst needs a statement before the call: not available in an expression-bodied arrow
        if kind == LK::MethodInst && !caller_block {
            kind = LK::Method;
        }
        links.push(Link {
            kind,
            module,
            nested,
            alias: tape.chance(1, 4),
            computed_call: tape.chance(1, 4),
            typed: tape.chance(1, 4),
            export_inline: !tape.chance(1, 3),
            argv: tape.weighted(&[5, 2, 2, 1]),
            reps: 1 + tape.below(3),
        });
    }
    let fault = if syntax {
        Fault::Syn(tape.below(N_SYN))
    } else {
        let (k, nv) = RT_VARIANTS[tape.weighted(&RT_WEIGHTS)];
        Fault::Rt(k, tape.below(nv))
    };
    let mut embeds = Vec::new();
    let mut wraps = Vec::new();
    for _ in 0..=d {
        embeds.push(tape.below(N_EMBED));
        let mut w = Vec::new();
        if tape.chance(1, 3) {
            w.push(1 + tape.below(N_WRAP - 1));
            if tape.chance(1, 4) {
                w.push(1 + tape.below(N_WRAP - 1));
            }
        }
        wraps.push(w);
    }
    let chain_order = tape.chance(1, 2);
    let mut s = Spec { nmods, pathset, root, links, fault, embeds, wraps, chain_order };
    normalise(&mut s);
    s
}

/// make a spec self-consistent (also used for the enumerated grid)
fn normalise(s: &mut Spec) {
    let d = s.depth();
    // 1. link kinds and placement
    for n in 1..=d {
        let prev = if n >= 2 { Some(s.links[n - 2].kind) } else { None };
        match s.links[n - 1].kind {
            LK::SuperCtor if !matches!(prev, Some(LK::Ctor) | Some(LK::SuperCtor)) => s.links[n - 1].kind = LK::Ctor,
            LK::SuperMethod if !matches!(prev, Some(LK::Method) | Some(LK::MethodInst) | Some(LK::SuperMethod)) => s.links[n - 1].kind = LK::Method,
            _ => {}
        }
        let caller_mod = s.module_of_level(n - 1);
        let caller_block = prev.map(|k| k.has_block_body()).unwrap_or(true);
        let k = s.links[n - 1].kind;
        if k.is_iife() {
            // defined inline at the call site: same module as the caller, and every deeper
            // module index is at least that
            s.links[n - 1].module = caller_mod;
            s.links[n - 1].nested = false;
        }
        if s.links[n - 1].module < caller_mod {
            s.links[n - 1].module = caller_mod;
        }
        if matches!(k, LK::SuperCtor | LK::SuperMethod | LK::NsFn) {
            s.links[n - 1].nested = false;
        }
        if s.links[n - 1].nested && (n < 2 || caller_mod != s.links[n - 1].module || !caller_block) {
            s.links[n - 1].nested = false;
        }
        if k == LK::MethodInst && !caller_block {
            s.links[n - 1].kind = LK::Method;
        }
        s.links[n - 1].reps = s.links[n - 1].reps.clamp(1, 3);
    }
    if let Fault::Syn(_) = s.fault {
        // the broken statement needs a statement position
        if s.kind_of_level(d) == Some(LK::ArrowExpr) {
            s.links[d - 1].kind = LK::ArrowBlock;
        }
    }
    // 2. embeddings
    for n in 0..=d {
        let body_kind = s.kind_of_level(n);
        let expr_body = body_kind == Some(LK::ArrowExpr);
        let is_key_fault = n == d;
        let mut e = s.embeds[n] % N_EMBED;
        let callee = if n < d { Some(s.links[n].kind) } else { None };
        // 14: default parameter value; 15: class field initialiser
        if e == 14 {
            let ok = body_kind.map(|k| k.default_param_ok()).unwrap_or(false) && callee != Some(LK::SuperCtor) && callee != Some(LK::SuperMethod) && callee != Some(LK::MethodInst);
            if !ok {
                e = 2;
            }
        }
        if e == 15 {
            let ok = matches!(body_kind, Some(LK::Ctor) | Some(LK::SuperCtor)) && callee != Some(LK::SuperCtor) && callee != Some(LK::MethodInst);
            if !ok {
                e = 3;
            }
        }
        if expr_body {
            s.wraps[n].clear();
            if matches!(e, 0 | 1 | 2 | 6 | 7) {
                e = 8;
            }
        }
        if n == 0 && e == 1 {
            e = 0; // no `return` at module level
        }
        if !is_key_fault {
            // super(..) is a plain statement of the derived constructor
            if s.links[n].kind == LK::SuperCtor {
                e = 0;
                s.wraps[n].clear();
            }
        } else if let Fault::Rt(k, _) = s.fault {
            match k {
                Rt::ConstAssign => {
                    if expr_body {
                        s.fault = Fault::Rt(Rt::UndefMember, 0);
                    } else if !matches!(e, 0 | 2 | 4 | 5 | 7 | 8 | 12) {
                        e = 2;
                    }
                }
                Rt::SetUndefMember => {
                    if !matches!(e, 0 | 2 | 4 | 5 | 7 | 8 | 12 | 14 | 15) {
                        e = if expr_body { 8 } else { 2 };
                    }
                }
                Rt::Tdz => {
                    if expr_body {
                        s.fault = Fault::Rt(Rt::Unresolved, 0);
                    }
                    if matches!(e, 13 | 14 | 15) {
                        e = 3;
                    }
                }
                Rt::Throw | Rt::Destructure => {
                    // statement-form faults
                    if expr_body {
                        s.fault = Fault::Rt(Rt::Unresolved, 0);
                        if e == 13 {
                            e = 3;
                        }
                    } else {
                        e = 0;
                    }
                }
                Rt::Unresolved => {
                    // `typeof undeclared` does not throw
                    if e == 13 {
                        e = 3;
                    }
                }
                _ => {}
            }
        }
        if is_key_fault && matches!(s.fault, Fault::Syn(_)) {
            e = 0; // the broken statement stands in the body
        }
        if matches!(e, 14 | 15) {
            s.wraps[n].clear();
            // the callee must be in scope where parameters / fields are initialised
            if n < d {
                s.links[n].nested = false;
            }
            // a second argument would pre-empt the default value
            if e == 14 && n >= 1 && s.links[n - 1].argv == 2 {
                s.links[n - 1].argv = 0;
            }
        }
        s.embeds[n] = e;
    }
}

// =============================================================================================
// rendering: spec -> token lists per module
// =============================================================================================
const WIDE_TEXTS: [&str; 8] = ["plain", "é", "中文", "😀", "é中😀", "a😀b é", "naïve ✓", "𝒳𝒴"];

struct Rend<'a, 't> {
    spec: &'a Spec,
    tape: &'a mut Tape<'t>,
    mods: Vec<Src>,
    uniq: usize,
    tags: Vec<String>,
    /// 0 = no fillers at all (enumerated grid)
    fillers: bool,
}

impl<'a, 't> Rend<'a, 't> {
    fn u(&mut self) -> usize {
        self.uniq += 1;
        self.uniq
    }
    fn src(&mut self, mi: usize) -> &mut Src {
        &mut self.mods[mi]
    }
    fn wide(&mut self) -> &'static str {
        *self.tape.pick(&WIDE_TEXTS)
    }

    // ---- fillers -------------------------------------------------------------------------
    fn fillers(&mut self, mi: usize, max: usize) {
        if !self.fillers {
            return;
        }
        let n = self.tape.below(max + 1);
        for _ in 0..n {
            self.filler(mi);
        }
    }
    fn filler(&mut self, mi: usize) {
        let k = self.tape.below(17);
        let u = self.u();
        let w = self.wide();
        let s = self.src(mi);
        match k {
            0 => {
                s.ts(&format!("const w{} =", u));
                s.t(&format!("\"{}\"", w));
                s.t(";");
            }
            1 => s.ts(&format!("let n{} = 1 + 2 ;", u)),
            2 => s.ts(&format!("ok{} ( p ) ;", mi)),
            3 => {
                // multi-line template without substitution
                s.ts(&format!("const t{} =", u));
                s.t(&format!("`a {}\n  b`", w));
                s.t(";");
            }
            4 => {
                // template with a substitution (tail re-scanned by the lexer), multi-line tail
                s.ts(&format!("const t{} =", u));
                s.t(&format!("`{}${{", w));
                s.ts("1 + 1");
                s.t("}\n tail`");
                s.t(";");
            }
            5 => {
                s.ts(&format!("const g{} =", u));
                s.t(&format!("/a+{}/g", if w == "plain" { "b" } else { w }));
                s.t(";");
            }
            6 => s.ts(&format!("try {{ p . a . b ; }} catch ( e{} ) {{ }}", u)),
            7 => s.ts(&format!("function d{} ( q ) {{ return q ; }}", u)),
            8 => s.ts(&format!("if ( p ) {{ ok{} ( 1 ) ; }} else {{ ok{} ( 2 ) ; }}", mi, mi)),
            9 => {
                s.t(&format!("\"{}\"", w));
                s.t(";");
            }
            10 => s.t(";"),
            11 => s.ts(&format!("class D{} {{ m ( ) {{ return 1 ; }} static z = 2 ; }}", u)),
            12 => s.ts(&format!("interface I{} {{ a : number ; b ? : string ; }}", u)),
            13 => s.ts(&format!("type T{} = string | number ;", u)),
            14 => s.ts(&format!("for ( let i{} = 0 ; i{} < 2 ; i{} ++ ) {{ ok{} ( i{} ) ; }}", u, u, u, mi, u)),
            15 => s.ts(&format!("const a{} : number [ ] = [ 1 , 2 ] ;", u)),
            _ => {
                // a completed call chain through a callback of a native (its frames must not linger)
                s.ts(&format!("[ 1 , 2 ] . map ( ( q ) => ok{} ( q ) ) ;", mi));
            }
        }
    }

    // ---- call expression towards link n (emitted at level n-1) ----------------------------
    /// statement that must precede the key statement
    fn call_pre(&mut self, n: usize) -> Option<String> {
        let l = &self.spec.links[n - 1];
        if l.kind == LK::MethodInst {
            let b = self.callee_binding(n);
            Some(format!("const i{} = new {} ( ) ;", n, b))
        } else {
            None
        }
    }
    fn callee_binding(&self, n: usize) -> String {
        let l = &self.spec.links[n - 1];
        let b = binding_name(l.kind, n);
        let caller_mod = self.spec.module_of_level(n - 1);
        if l.alias && caller_mod != l.module {
            format!("x{}", b)
        } else {
            b
        }
    }
    fn emit_args(&mut self, mi: usize, argv: usize) {
        let w = self.wide();
        let s = self.src(mi);
        match argv {
            0 => s.t("p"),
            1 => s.ts(&format!("ok{} ( p )", mi)),
            2 => {
                s.ts("p , 1 ,");
                s.t(&format!("\"{}\"", w));
            }
            _ => s.ts("( p )"),
        }
    }
    /// `( p )`, `( p : any )`, `( p , q = <key expression> )`, `( p , i )`
    fn emit_params(&mut self, mi: usize, n: usize) {
        let l = self.spec.links[n - 1].clone();
        self.src(mi).t("(");
        self.src(mi).ts(if l.typed { "p : any" } else { "p" });
        if l.kind == LK::RecFn {
            self.src(mi).ts(", i");
        } else if self.spec.embeds[n] == 14 {
            self.src(mi).ts(", q =");
            self.emit_key_expr(mi, n);
        }
        self.src(mi).t(")");
    }
    fn emit_call(&mut self, mi: usize, n: usize) {
        let l = self.spec.links[n - 1].clone();
        let b = self.callee_binding(n);
        let fname = frame_name(l.kind, n);
        match l.kind {
            LK::FnDecl | LK::FnExprConst | LK::NamedFnExpr | LK::ArrowBlock | LK::ArrowExpr => {
                self.src(mi).ts(&format!("{} (", b));
                self.emit_args(mi, l.argv);
                self.src(mi).t(")");
            }
            LK::RecFn => {
                self.src(mi).ts(&format!("{} (", b));
                self.emit_args(mi, if l.argv == 2 { 0 } else { l.argv });
                self.src(mi).ts(&format!(", {} )", l.reps));
            }
            LK::NsFn => {
                self.src(mi).ts(&format!("{} . {} (", b, fname));
                self.emit_args(mi, l.argv);
                self.src(mi).t(")");
            }
            LK::IifeFn => {
                self.src(mi).ts("( function");
                self.emit_params(mi, n);
                self.src(mi).t("{");
                self.emit_body(n);
                self.src(mi).ts("} ) (");
                self.emit_args(mi, l.argv);
                self.src(mi).t(")");
            }
            LK::IifeArrow => {
                self.src(mi).t("(");
                self.emit_params(mi, n);
                self.src(mi).ts("=> {");
                self.emit_body(n);
                self.src(mi).ts("} ) (");
                self.emit_args(mi, l.argv);
                self.src(mi).t(")");
            }
            LK::Method => {
                self.src(mi).ts(&format!("new {} ( ) . {} (", b, fname));
                self.emit_args(mi, l.argv);
                self.src(mi).t(")");
            }
            LK::MethodInst => {
                self.src(mi).ts(&format!("i{} . {} (", n, fname));
                self.emit_args(mi, l.argv);
                self.src(mi).t(")");
            }
            LK::StaticMethod => {
                self.src(mi).ts(&format!("{} . {} (", b, fname));
                self.emit_args(mi, l.argv);
                self.src(mi).t(")");
            }
            LK::Ctor => {
                self.src(mi).ts(&format!("new {} (", b));
                self.emit_args(mi, l.argv);
                self.src(mi).t(")");
            }
            LK::SuperCtor => {
                self.src(mi).ts("super (");
                self.emit_args(mi, l.argv);
                self.src(mi).t(")");
            }
            LK::SuperMethod => {
                self.src(mi).ts(&format!("super . {} (", fname));
                self.emit_args(mi, l.argv);
                self.src(mi).t(")");
            }
            LK::ObjMethod | LK::ObjFnProp | LK::ObjArrowProp => {
                if l.computed_call {
                    self.src(mi).ts(&format!("{} [ \"{}\" ] (", b, fname));
                } else {
                    self.src(mi).ts(&format!("{} . {} (", b, fname));
                }
                self.emit_args(mi, l.argv);
                self.src(mi).t(")");
            }
            LK::Getter => {
                self.src(mi).ts(&format!("new {} (", b));
                self.emit_args(mi, l.argv);
                self.src(mi).ts(&format!(") . {}", fname));
            }
            LK::NativeMap | LK::NativeForEach => {
                self.src(mi).t("[");
                self.emit_args(mi, if l.argv == 2 { 0 } else { l.argv });
                self.src(mi).ts(&format!("] . {} ( {} )", if l.kind == LK::NativeMap { "map" } else { "forEach" }, b));
            }
        }
    }

    // ---- fault expression ------------------------------------------------------------------
    fn emit_rt_fault_expr(&mut self, mi: usize, k: Rt, v: usize) {
        let w = self.wide();
        let u = self.u();
        let s = self.src(mi);
        match (k, v) {
            (Rt::UndefMember, 0) => s.ts("p . a . b"),
            (Rt::UndefMember, 1) => s.ts("p . n . b"),
            (Rt::UndefMember, 2) => s.ts("p . a [ \"b\" ]"),
            (Rt::UndefMember, 3) => s.ts("p . a [ p . k ]"),
            (Rt::UndefMember, 4) => s.ts("p [ \"a\" ] . b"),
            (Rt::UndefMember, 5) => s.ts("( p . a ) . b"),
            (Rt::UndefMember, 6) => s.ts("p . o . a . b"),
            (Rt::UndefMember, 7) => s.ts("p . a . b . c"),
            (Rt::UndefMember, _) => s.ts("p . s . x . y"),
            (Rt::CallNonFn, 0) => s.ts("p . nope ( )"),
            (Rt::CallNonFn, 1) => {
                s.ts("p . nope ( 1 ,");
                s.t(&format!("\"{}\"", w));
                s.t(")");
            }
            (Rt::CallNonFn, 2) => s.ts("p . k ( )"),
            (Rt::CallNonFn, 3) => s.ts("p . o . f ( p )"),
            (Rt::CallNonFn, 4) => s.ts("p ( )"),
            (Rt::CallNonFn, _) => s.ts("p . a . b ( )"),
            (Rt::Unresolved, _) => s.t(&format!("zz{}", u)),
            (Rt::Tdz, _) => s.t("late"),
            (Rt::NewNonCtor, 0) => s.ts("new p . o ( )"),
            (Rt::NewNonCtor, _) => s.ts("new p . k ( 1 )"),
            (Rt::ConstAssign, _) => s.ts("cc = 2"),
            (Rt::SetUndefMember, 0) => s.ts("p . a . b = 1"),
            (Rt::SetUndefMember, 1) => s.ts("p . a . b += 1"),
            (Rt::SetUndefMember, _) => s.ts("p . n [ \"b\" ] = p"),
            (Rt::BinOp, 0) => s.ts("( \"a\" in p . k )"),
            (Rt::BinOp, _) => s.ts("( p instanceof p . o )"),
            (Rt::NativeThrow, _) => s.ts("JSON . parse ( \"{\" )"),
            (Rt::TaggedTemplate, _) => {
                s.ts("p . nope");
                s.t(&format!("`x {}`", w));
            }
            (Rt::Throw, _) | (Rt::Destructure, _) => {}
        }
    }

    /// the key expression X of level n (the call of link n+1, or the faulting expression): mark "key{n}"
    fn emit_key_expr(&mut self, mi: usize, n: usize) {
        let d = self.spec.depth();
        let key = format!("key{}", n);
        self.src(mi).begin(&key);
        if n == d {
            if let Fault::Rt(k, v) = self.spec.fault {
                self.emit_rt_fault_expr(mi, k, v);
            }
        } else {
            self.emit_call(mi, n + 1);
        }
        self.src(mi).end(&key);
    }

    /// statement with the key expression embedded
    fn emit_embedded(&mut self, mi: usize, n: usize, expr_body: bool) {
        let e = self.spec.embeds[n];
        let u = self.u();
        // (prefix, suffix); in an expression body there is no declaration / terminator
        let (pre, post): (String, String) = if expr_body {
            match e {
                3 => ("1 +".into(), "".into()),
                4 => ("[ 1 ,".into(), "]".into()),
                5 => ("( { q :".into(), "} )".into()),
                8 => ("(".into(), ")".into()),
                9 => ("".into(), "? 1 : 2".into()),
                10 => ("true &&".into(), "".into()),
                11 => ("`t${".into(), "}`".into()),
                12 => (format!("ok{} (", mi), ")".into()),
                13 => ("typeof".into(), "".into()),
                _ => ("".into(), "".into()),
            }
        } else {
            match e {
                0 => ("".into(), ";".into()),
                1 => ("return".into(), ";".into()),
                2 => (format!("const r{} =", u), ";".into()),
                3 => (format!("const r{} = 1 +", u), ";".into()),
                4 => (format!("const r{} = [ 1 ,", u), "] ;".into()),
                5 => (format!("const r{} = {{ q :", u), "} ;".into()),
                6 => ("if (".into(), ") { }".into()),
                7 => ("p . z =".into(), ";".into()),
                8 => (format!("const r{} = (", u), ") ;".into()),
                9 => (format!("const r{} =", u), "? 1 : 2 ;".into()),
                10 => (format!("const r{} = true &&", u), ";".into()),
                11 => (format!("const r{} = `t${{", u), "}` ;".into()),
                12 => (format!("ok{} (", mi), ") ;".into()),
                _ => (format!("const r{} = typeof", u), ";".into()),
            }
        };
        self.src(mi).ts(&pre);
        self.emit_key_expr(mi, n);
        self.src(mi).ts(&post);
    }

    // ---- syntactic fault statement ------------------------------------------------------------
    /// emits the broken statement; mark "syn" = offending token (or "syn-eof" = truncate here)
    fn emit_syn_fault(&mut self, mi: usize, v: usize) {
        let u = self.u();
        let w = self.wide();
        // (before, offending, after)
        let (a, off, b): (String, String, String) = match v {
            0 => (format!("let v{} =", u), ";".into(), "".into()),
            1 => ("p . z = 1 +".into(), ";".into(), "".into()),
            2 => (format!("ok{} ( 1", mi), "2".into(), ") ;".into()),
            3 => ("if ( p".into(), "{".into(), "}".into()),
            4 => ("let".into(), "5".into(), "= 1 ;".into()),
            5 => (format!("const a{} = [ 1 , 2", u), ";".into(), "".into()),
            6 => (format!("const a{} = ( 1 + 2", u), ";".into(), "".into()),
            7 => (format!("const o{} = {{ a : 1", u), ";".into(), "".into()),
            8 => (format!("let v{} =", u), "§".into(), ";".into()),
            9 => (format!("let v{} =", u), "😀".into(), ";".into()),
            10 => ("".into(), ")".into(), ";".into()),
            11 => ("".into(), "]".into(), ";".into()),
            12 => (format!("function u{} ( q", u), "{".into(), "}".into()),
            13 => ("throw".into(), ";".into(), "".into()),
            14 => ("p .".into(), ";".into(), "".into()),
            15 => ("const".into(), "=".into(), "1 ;".into()),
            16 => ("p =".into(), "=".into(), "1 ;".into()),
            17 => (format!("const s{} =", u), format!("\"abc {}", w), "".into()), // unterminated string
            18 => (format!("const t{} =", u), format!("`abc {}", w), ";".into()), // unterminated template (to EOF)
            20 => (format!("for ( let i{} = 0 ; i{} < 1", u, u), ")".into(), "{ }".into()),
            21 => ("while (".into(), ")".into(), "{ }".into()),
            22 => ("p . z = { a :".into(), ",".into(), "} ;".into()),
            23 => ("p . z = [ 1 ,".into(), ")".into(), ";".into()),
            24 => (";".into(), "else".into(), "{ }".into()),
            25 => ("do { }".into(), ";".into(), "".into()),
            26 => (format!("let v{} =", u), "017".into(), ";".into()),
            27 => (format!("ok{} ( \"é\" ,", mi), ";".into(), "".into()),
            // early errors (detected after the construct was parsed): the offending token is the bad target / duplicate
            29 => ("".into(), "1".into(), "= 2 ;".into()),
            30 => (format!("function g{} ( a ,", u), "a".into(), ") { }".into()),
            31 => ("( { a :".into(), "1".into(), "} = 2 ) ;".into()),
            32 => ("p ++".into(), "++".into(), ";".into()),
            _ => ("".into(), "".into(), "".into()), // 19 and 28: below
        };
        if v >= N_SYN_BASE {
            self.emit_syn_in_context(mi, (v - N_SYN_BASE) / N_SYN_BAD, (v - N_SYN_BASE) % N_SYN_BAD);
            return;
        }
        let s = self.src(mi);
        if v == 19 {
            // a block is opened and never closed; everything after the fault position is dropped
            s.ts(&format!("function u{} ( ) {{ ok{} ( 1 ) ;", u, mi));
            let at = s.toks.len();
            s.truncate_at = Some(at);
            s.marks.insert("syn-eof".into(), (at - 1, at - 1));
            return;
        }
        if v == 28 {
            // `tX = `w${ 1 }rest ... : the continuation after `}` never ends
            s.ts(&format!("const t{} =", u));
            s.begin("syn");
            s.t(&format!("`{}${{", w));
            s.t("1");
            s.t("}rest");
            s.end("syn");
            s.t(";");
            // nothing after it may contain a backtick (it would terminate the template)
            s.truncate_at = Some(s.toks.len());
            return;
        }
        s.ts(&a);
        s.begin("syn");
        s.t(&off);
        s.end("syn");
        if v == 17 {
            if let Some(t) = s.toks.last_mut() {
                t.force_nl_after = true;
            }
        }
        s.ts(&b);
        if v == 18 {
            // nothing after it may contain a backtick (it would terminate the template)
            s.truncate_at = Some(s.toks.len());
        }
    }

    /// a broken expression (offending token marked "syn") inside a syntactic context
    fn emit_syn_in_context(&mut self, mi: usize, ctx: usize, bad: usize) {
        let u = self.u();
        let w = self.wide();
        let (pre, post): (String, String) = match ctx {
            0 => (format!("const r{} =", u), ";".into()),
            1 => (format!("const r{} = `t${{", u), "}` ;".into()),
            2 => (format!("const g{} = ( a : any , b =", u), ") => 1 ;".into()),
            3 => (format!("const g{} = ( a , b =", u), ") => 1 ;".into()),
            4 => (format!("function g{} ( a , b =", u), ") { }".into()),
            5 => (format!("const g{} = ( a ) =>", u), ";".into()),
            6 => (format!("ok{} ( ( a ) =>", mi), ") ;".into()),
            7 => (format!("ok{} ( 1 ,", mi), ") ;".into()),
            8 => (format!("ok{} < number > (", mi), ") ;".into()),
            9 => (format!("const r{} = < any >", u), ";".into()),
            10 => (format!("const r{} = (", u), "as any ) ;".into()),
            11 => (format!("const r{} = {{ a :", u), "} ;".into()),
            12 => (format!("const r{} = {{ m ( ) {{ return", u), "; } } ;".into()),
            13 => (format!("class K{} {{ f =", u), "; }".into()),
            14 => (format!("class K{} {{ m ( a , b =", u), ") { } }".into()),
            15 => (format!("const r{} = [ 1 , ...", u), "] ;".into()),
            16 => (format!("const r{} = p ?", u), ": 1 ;".into()),
            17 => (format!("const r{} = p ? 1 :", u), ";".into()),
            18 => (format!("const {{ a{} =", u), "} = p ;".into()),
            19 => (format!("const [ a{} =", u), "] = [ ] ;".into()),
            20 => (format!("for ( let i{} =", u), "; ; ) { }".into()),
            21 => (format!("for ( const x{} of", u), ") { }".into()),
            22 => (format!("const r{} = {{ [", u), "] : 1 } ;".into()),
            23 => (format!("const r{} = p [", u), "] ;".into()),
            24 => (format!("const r{} = /a+/g . test (", u), ") ;".into()),
            25 => (format!("const r{} = new Object (", u), ") ;".into()),
            26 => (format!("const r{} = p ?. a (", u), ") ;".into()),
            27 => ("switch (".into(), ") { }".into()),
            28 => ("switch ( 1 ) { case".into(), ": }".into()),
            29 => ("while (".into(), ") { }".into()),
            30 => ("if (".into(), ") { }".into()),
            31 => (format!("enum X{} {{ A =", u), "}".into()),
            32 => (format!("const g{} = async ( a , b =", u), ") => 1 ;".into()),
            33 => (format!("const g{} = ( a : any , b ? : number , ... c ) : any =>", u), ";".into()),
            34 => (format!("const r{} = p . k <", u), ";".into()),
            35 => (format!("const r{} = ok{} `x${{", u, mi), "}y` ;".into()),
            36 => (format!("const r{} = function ( ) {{ return", u), "; } ;".into()),
            37 => (format!("const r{} : Array < number > =", u), ";".into()),
            38 => (format!("let r{} : {{ a : number }} =", u), ";".into()),
            _ => (format!("const r{} = ( a : any = 1 , {{ b }} : any =", u), ") => 1 ;".into()),
        };
        let s = self.src(mi);
        s.ts(&pre);
        match bad {
            0 => {
                s.ts("( 1 +");
                s.begin("syn");
                s.t("]");
                s.end("syn");
                s.t(")");
            }
            1 => {
                s.ts("[ 1 , 2");
                s.begin("syn");
                s.t("}");
                s.end("syn");
                s.t("]");
            }
            2 => {
                s.ts(&format!("ok{} ( 1", mi));
                s.begin("syn");
                s.t("2");
                s.end("syn");
                s.t(")");
            }
            3 => {
                s.ts("( { a :");
                s.begin("syn");
                s.t(",");
                s.end("syn");
                s.ts("} )");
            }
            4 => {
                s.begin("syn");
                s.t(&format!("\"abc {}", w));
                s.end("syn");
                if let Some(t) = s.toks.last_mut() {
                    t.force_nl_after = true;
                }
            }
            5 => {
                s.ts("( p");
                s.begin("syn");
                s.t("p");
                s.end("syn");
                s.t(")");
            }
            _ => {
                s.begin("syn");
                s.t("§");
                s.end("syn");
            }
        }
        s.ts(&post);
    }

    // ---- key statement with wrappers ---------------------------------------------------------
    fn emit_key_statement(&mut self, mi: usize, n: usize) {
        let d = self.spec.depth();
        let wraps = self.spec.wraps[n].clone();
        let u = self.u();
        let mut closers: Vec<String> = Vec::new();
        for w in &wraps {
            let (open, close): (String, String) = match w {
                1 => ("{".into(), "}".into()),
                2 => ("if ( true ) {".into(), "}".into()),
                3 => ("if ( p ) {".into(), format!("}} else {{ ok{} ( 0 ) ; }}", mi)),
                4 => (format!("for ( let j{} = 0 ; j{} < 1 ; j{} ++ ) {{", u, u, u), "}".into()),
                5 => ("try {".into(), format!("}} finally {{ ok{} ( 0 ) ; }}", mi)),
                6 => (format!("lbl{} : {{", u), "}".into()),
                7 => ("switch ( 1 ) { case 1 :".into(), "}".into()),
                _ => ("do {".into(), "} while ( false ) ;".into()),
            };
            if *w == 5 {
                self.tags.push("wrap:try-finally".into());
            }
            self.src(mi).ts(&open);
            closers.push(close);
        }
        // the statement itself
        let key = format!("key{}", n);
        if n == d {
            match self.spec.fault {
                Fault::Syn(v) => self.emit_syn_fault(mi, v),
                Fault::Rt(Rt::Throw, _) => {
                    let w = self.wide();
                    let s = self.src(mi);
                    s.begin(&key);
                    s.ts("throw new Error (");
                    s.t(&format!("\"boom {}\"", w));
                    s.t(")");
                    s.end(&key);
                    s.t(";");
                }
                Fault::Rt(Rt::Destructure, v) => {
                    let s = self.src(mi);
                    s.begin(&key);
                    match v {
                        0 => s.ts(&format!("const {{ a{} }} = p . n", u)),
                        1 => s.ts(&format!("const [ a{} ] = p . k", u)),
                        _ => s.ts(&format!("for ( const x{} of p . k ) {{ }}", u)),
                    }
                    s.end(&key);
                    if v < 2 {
                        s.t(";");
                    }
                }
                Fault::Rt(..) => self.emit_embedded(mi, n, false),
            }
        } else {
            self.emit_embedded(mi, n, false);
        }
        for c in closers.iter().rev() {
            self.src(mi).ts(c);
        }
    }

    // ---- statement list of level n --------------------------------------------------------------
    fn emit_body(&mut self, n: usize) {
        let d = self.spec.depth();
        let mi = self.spec.module_of_level(n);
        let kind = self.spec.kind_of_level(n);
        if kind == Some(LK::Getter) {
            self.src(mi).ts("const p = this . v ;");
        }
        if kind == Some(LK::RecFn) {
            // re-enter the same function `reps` times before running the body
            let b = binding_name(LK::RecFn, n);
            let rec = format!("rec{}", n);
            self.src(mi).ts("if ( i > 0 ) { return");
            self.src(mi).begin(&rec);
            self.src(mi).ts(&format!("{} ( p , i - 1 )", b));
            self.src(mi).end(&rec);
            self.src(mi).ts("; }");
        }
        self.fillers(mi, 2);
        if n < d && self.spec.links[n].nested {
            self.emit_def(n + 1);
            self.fillers(mi, 1);
        }
        let elsewhere = matches!(self.spec.embeds[n], 14 | 15);
        if !elsewhere {
            if n < d {
                if let Some(pre) = self.call_pre(n + 1) {
                    self.src(mi).ts(&pre);
                }
            } else if let Fault::Rt(Rt::ConstAssign, _) = self.spec.fault {
                self.src(mi).ts("const cc = 1 ;");
            }
            self.emit_key_statement(mi, n);
            if n == d {
                if let Fault::Rt(Rt::Tdz, _) = self.spec.fault {
                    self.src(mi).ts("let late = 1 ;");
                }
            }
        }
        self.fillers(mi, 1);
    }

    // ---- definition of link n ---------------------------------------------------------------------
    fn emit_def(&mut self, n: usize) {
        let l = self.spec.links[n - 1].clone();
        if l.kind.is_iife() {
            return; // defined at the call site
        }
        let mi = l.module;
        let fname = frame_name(l.kind, n);
        let b = binding_name(l.kind, n);
        let exported = !l.nested && self.needs_export(n);
        let ex = if exported && l.export_inline { "export " } else { "" };
        // class heritage: the next link decides whether this class extends it
        let d = self.spec.depth();
        let extends = if n < d && matches!(self.spec.links[n].kind, LK::SuperCtor | LK::SuperMethod) {
            format!("extends {} ", self.callee_binding(n + 1))
        } else {
            String::new()
        };
        let modifier = if l.typed && l.argv % 2 == 1 { "public " } else { "" };
        match l.kind {
            LK::IifeFn | LK::IifeArrow => {}
            LK::FnDecl | LK::NativeMap | LK::NativeForEach | LK::RecFn => {
                self.src(mi).ts(&format!("{}function {}", ex, fname));
                self.emit_params(mi, n);
                self.src(mi).ts(if l.typed { ": any {" } else { "{" });
                self.emit_body(n);
                self.src(mi).t("}");
            }
            LK::NsFn => {
                self.src(mi).ts(&format!("{}namespace {} {{ export function {}", ex, b, fname));
                self.emit_params(mi, n);
                self.src(mi).t("{");
                self.emit_body(n);
                self.src(mi).ts("} }");
            }
            LK::FnExprConst => {
                self.src(mi).ts(&format!("{}const {} = function", ex, b));
                self.emit_params(mi, n);
                self.src(mi).t("{");
                self.emit_body(n);
                self.src(mi).ts("} ;");
            }
            LK::NamedFnExpr => {
                self.src(mi).ts(&format!("{}const {} = function {}", ex, b, fname));
                self.emit_params(mi, n);
                self.src(mi).t("{");
                self.emit_body(n);
                self.src(mi).ts("} ;");
            }
            LK::ArrowBlock => {
                self.src(mi).ts(&format!("{}const {} =", ex, b));
                self.emit_params(mi, n);
                self.src(mi).ts("=> {");
                self.emit_body(n);
                self.src(mi).ts("} ;");
            }
            LK::ArrowExpr => {
                self.src(mi).ts(&format!("{}const {} =", ex, b));
                self.emit_params(mi, n);
                self.src(mi).t("=>");
                if self.spec.embeds[n] == 14 {
                    self.src(mi).t("1");
                } else {
                    self.emit_embedded(mi, n, true);
                }
                self.src(mi).t(";");
            }
            LK::Method | LK::MethodInst | LK::SuperMethod => {
                self.src(mi).ts(&format!("{}class {} {}{{", ex, b, extends));
                self.class_fillers(mi);
                self.src(mi).ts(&format!("{}{}", modifier, fname));
                self.emit_params(mi, n);
                self.src(mi).t("{");
                self.emit_body(n);
                self.src(mi).t("}");
                self.class_fillers(mi);
                self.src(mi).t("}");
            }
            LK::StaticMethod => {
                self.src(mi).ts(&format!("{}class {} {{", ex, b));
                self.class_fillers(mi);
                self.src(mi).ts(&format!("static {}", fname));
                self.emit_params(mi, n);
                self.src(mi).t("{");
                self.emit_body(n);
                self.src(mi).t("}");
                self.class_fillers(mi);
                self.src(mi).t("}");
            }
            LK::Ctor | LK::SuperCtor => {
                self.src(mi).ts(&format!("{}class {} {}{{", ex, b, extends));
                self.class_fillers(mi);
                let field_first = l.argv % 2 == 0;
                if self.spec.embeds[n] == 15 && field_first {
                    self.src(mi).ts(&format!("fld{} =", n));
                    self.emit_key_expr(mi, n);
                    self.src(mi).t(";");
                }
                self.src(mi).t("constructor");
                self.emit_params(mi, n);
                self.src(mi).t("{");
                if !extends.is_empty() && self.spec.embeds[n] == 15 {
                    // a derived constructor must call super(); here the base is not part of the chain
                    self.src(mi).ts("super ( p ) ;");
                }
                self.emit_body(n);
                self.src(mi).t("}");
                if self.spec.embeds[n] == 15 && !field_first {
                    self.src(mi).ts(&format!("fld{} =", n));
                    self.emit_key_expr(mi, n);
                    self.src(mi).t(";");
                }
                self.class_fillers(mi);
                self.src(mi).t("}");
            }
            LK::Getter => {
                self.src(mi).ts(&format!("{}class {} {{ constructor ( p ) {{ this . v = p ; }}", ex, b));
                self.src(mi).ts(&format!("get {} ( ) {{", fname));
                self.emit_body(n);
                self.src(mi).ts("} }");
            }
            LK::ObjMethod => {
                self.src(mi).ts(&format!("{}const {} = {{", ex, b));
                self.obj_fillers(mi);
                self.src(mi).t(&fname);
                self.emit_params(mi, n);
                self.src(mi).t("{");
                self.emit_body(n);
                self.src(mi).ts("} } ;");
            }
            LK::ObjFnProp => {
                self.src(mi).ts(&format!("{}const {} = {{", ex, b));
                self.obj_fillers(mi);
                self.src(mi).ts(&format!("{} : function", fname));
                self.emit_params(mi, n);
                self.src(mi).t("{");
                self.emit_body(n);
                self.src(mi).ts("} } ;");
            }
            LK::ObjArrowProp => {
                self.src(mi).ts(&format!("{}const {} = {{", ex, b));
                self.obj_fillers(mi);
                self.src(mi).ts(&format!("{} :", fname));
                self.emit_params(mi, n);
                self.src(mi).ts("=> {");
                self.emit_body(n);
                self.src(mi).ts("} } ;");
            }
        }
    }
    fn class_fillers(&mut self, mi: usize) {
        if !self.fillers {
            return;
        }
        let k = self.tape.below(6);
        let u = self.u();
        let s = self.src(mi);
        match k {
            1 => s.ts(&format!("other{} = 1 ;", u)),
            2 => s.ts(&format!("static z{} ( ) {{ return 1 ; }}", u)),
            3 => s.ts(&format!("other{} ( q ) {{ return q ; }}", u)),
            _ => {}
        }
    }
    fn obj_fillers(&mut self, mi: usize) {
        if !self.fillers {
            return;
        }
        let k = self.tape.below(5);
        let u = self.u();
        let w = self.wide();
        let s = self.src(mi);
        match k {
            1 => s.ts(&format!("q{} : 1 ,", u)),
            2 => {
                s.t(&format!("\"{}\"", w));
                s.ts(": 2 ,");
            }
            3 => s.ts(&format!("h{} ( q ) {{ return q ; }} ,", u)),
            _ => {}
        }
    }

    /// link n's binding is referred to from another module
    fn needs_export(&self, n: usize) -> bool {
        let l = &self.spec.links[n - 1];
        self.spec.module_of_level(n - 1) != l.module
    }

    // ---- whole modules ------------------------------------------------------------------------------
    fn emit_modules(&mut self) {
        let spec = self.spec;
        let d = spec.depth();
        for mi in 0..spec.nmods {
            // imports
            let mut side: Vec<usize> = Vec::new();
            for mj in (mi + 1)..spec.nmods {
                let mut names: Vec<String> = Vec::new();
                for n in 1..=d {
                    let l = &spec.links[n - 1];
                    if l.module == mj && spec.module_of_level(n - 1) == mi && !l.nested && !l.kind.is_iife() {
                        let b = binding_name(l.kind, n);
                        if l.alias {
                            names.push(format!("{} as x{}", b, b));
                        } else {
                            names.push(b);
                        }
                    }
                }
                if !names.is_empty() {
                    let list = names.join(" , ");
                    let s = self.src(mi);
                    s.ts(&format!("import {{ {} }} from", list));
                    s.t(&format!("\"{}\"", specifier(spec.pathset, mi, mj)));
                    s.t(";");
                } else if mi == 0 {
                    side.push(mj);
                }
            }
            for mj in side {
                let s = self.src(mi);
                s.t("import");
                s.t(&format!("\"{}\"", specifier(spec.pathset, mi, mj)));
                s.t(";");
            }
            self.src(mi).ts(&format!("function ok{} ( q ) {{ return q ; }}", mi));
            self.src(mi).ts("const p = { k : 1 , n : null , o : { } , s : \"é\" } ;");
            self.fillers(mi, 2);
            // module-level definitions
            let mut defs: Vec<usize> = (1..=d).filter(|n| spec.links[n - 1].module == mi && !spec.links[n - 1].nested && !spec.links[n - 1].kind.is_iife()).collect();
            let has_super = defs.iter().any(|n| matches!(spec.links[n - 1].kind, LK::SuperCtor | LK::SuperMethod));
            if has_super || !spec.chain_order {
                defs.reverse(); // deepest first: base classes exist before `extends` evaluates them
            }
            let mut late_exports: Vec<String> = Vec::new();
            for n in defs {
                self.emit_def(n);
                let l = &spec.links[n - 1];
                if self.needs_export(n) && !l.export_inline {
                    late_exports.push(binding_name(l.kind, n));
                }
                self.fillers(mi, 1);
            }
            if !late_exports.is_empty() {
                self.src(mi).ts(&format!("export {{ {} }} ;", late_exports.join(" , ")));
            }
            if mi == spec.root {
                self.emit_body(0);
            }
            self.fillers(mi, 1);
        }
    }
}

// =============================================================================================
// layout
// =============================================================================================
#[derive(Clone, Debug, Default)]
struct Laid {
    text: String,
    /// per token: [line0, col0, line1, col1) — end exclusive, in the lexer's convention
    ext: Vec<[u32; 4]>,
    /// per token: a non-ASCII scalar / a tab precedes it on its line
    wide_before: Vec<bool>,
    tab_before: Vec<bool>,
    eof: (u32, u32),
    feats: Vec<&'static str>,
}

struct Pen {
    text: String,
    line: u32,
    col: u32,
    line_wide: bool,
    line_tab: bool,
    nl_mode: u8,
    nl_count: u32,
}
impl Pen {
    /// the column convention under test, stated once: '\n' starts a new line at column 1; every
    /// other Unicode scalar value (tab, '\r', BOM, astral characters) advances the column by one.
    fn put(&mut self, s: &str) {
        for ch in s.chars() {
            if ch == '\n' {
                let crlf = match self.nl_mode {
                    0 => false,
                    1 => true,
                    _ => self.nl_count % 2 == 0,
                };
                self.nl_count += 1;
                if crlf {
                    self.text.push('\r');
                }
                self.text.push('\n');
                self.line += 1;
                self.col = 1;
                self.line_wide = false;
                self.line_tab = false;
            } else {
                self.text.push(ch);
                self.col += 1;
                if ch == '\t' {
                    self.line_tab = true;
                }
                if !ch.is_ascii() {
                    self.line_wide = true;
                }
            }
        }
    }
}

fn wordy_end(s: &str) -> bool {
    s.chars().last().map(|c| c.is_alphanumeric() || c == '_' || c == '$' || !c.is_ascii()).unwrap_or(false)
}
fn wordy_start(s: &str) -> bool {
    s.chars().next().map(|c| c.is_alphanumeric() || c == '_' || c == '$' || !c.is_ascii()).unwrap_or(false)
}
fn safe_punct(s: &str) -> bool {
    matches!(s, "(" | ")" | "[" | "]" | "{" | "}" | "," | ";" | ".")
}

const COMMENT_TEXTS: [&str; 10] = ["c", "note: x.a.b", "é", "中文 注释", "😀", "é😀中 p.a.b", "tab\there", "'q\" (", "* star *", "𝒳 }"];

/// mode: 0 = natural formatting (no tape), 1 = every gap drawn from the tape, 2 = as 1 but the whole file on one line
fn layout(src: &Src, tape: &mut Tape, mode: u8, nl_mode: u8, bom: bool, indent_tab: bool, final_nl: bool) -> Laid {
    let natural = mode == 0;
    let mut pen = Pen { text: String::new(), line: 1, col: 1, line_wide: false, line_tab: false, nl_mode, nl_count: 0 };
    let mut out = Laid::default();
    if bom {
        pen.put("\u{feff}");
        out.feats.push("bom");
    }
    out.feats.push(match nl_mode {
        0 => "nl:lf",
        1 => "nl:crlf",
        _ => "nl:mixed",
    });
    let ntok = src.truncate_at.unwrap_or(src.toks.len()).min(src.toks.len());
    let mut depth: usize = 0;
    for i in 0..ntok {
        let tok = &src.toks[i];
        if i > 0 {
            let prev = &src.toks[i - 1];
            let need_space = (wordy_end(&prev.s) && wordy_start(&tok.s)) || !(safe_punct(&prev.s) || safe_punct(&tok.s)) || (tok.s == "." && prev.s.chars().last().map(|c| c.is_ascii_digit()).unwrap_or(false));
            // restricted productions: no line terminator before a postfix `++` or before `=>`
            let no_nl = prev.no_nl_after || tok.s == "++" || tok.s == "=>" || prev.s == "return" || prev.s == "throw";
            let stmt_gap = matches!(prev.s.as_str(), ";" | "{" | "}");
            if tok.s == "}" {
                depth = depth.saturating_sub(1);
            }
            let indent = |pen: &mut Pen, extra: usize| {
                let unit = if indent_tab { "\t" } else { "  " };
                for _ in 0..(depth + extra).min(8) {
                    pen.put(unit);
                }
            };
            if prev.force_nl_after {
                pen.put("\n");
                indent(&mut pen, 0);
            } else if natural {
                if stmt_gap && !no_nl {
                    pen.put("\n");
                    indent(&mut pen, 0);
                } else if need_space {
                    pen.put(" ");
                }
            } else {
                // separator kinds: 0 minimal, 1 space, 2 tab, 3 spaces, 4 NL, 5 NL NL, 6 block comment,
                // 7 multi-line block comment, 8 line comment
                let kind = if stmt_gap {
                    [4usize, 1, 0, 2, 5, 6, 7, 8][tape.weighted(&[50, 12, 6, 4, 7, 6, 5, 10])]
                } else {
                    [0usize, 1, 2, 3, 4, 5, 6, 7, 8][tape.weighted(&[44, 24, 5, 3, 9, 1, 6, 3, 5])]
                };
                let kind = if (no_nl || mode == 2) && matches!(kind, 4 | 5 | 7 | 8) { if kind == 4 { 1 } else { 6 } } else { kind };
                match kind {
                    0 => {
                        if need_space {
                            pen.put(" ");
                        }
                    }
                    1 => pen.put(" "),
                    2 => pen.put("\t"),
                    3 => pen.put(*tape.pick(&["   ", " \t ", "\u{a0}", " \u{b}\u{c} ", "\t\t", " \u{feff}"])),
                    4 => {
                        pen.put("\n");
                        let extra = tape.below(3);
                        indent(&mut pen, extra);
                    }
                    5 => {
                        pen.put("\n");
                        match tape.below(4) {
                            0 => {}
                            1 => pen.put("  \t"),
                            2 => pen.put("/* 😀 */"),
                            _ => {
                                for _ in 0..40 {
                                    pen.put("\n");
                                }
                            }
                        }
                        pen.put("\n");
                        indent(&mut pen, 0);
                    }
                    6 => {
                        let c = *tape.pick(&COMMENT_TEXTS);
                        pen.put(&format!(" /* {} */ ", c));
                    }
                    7 => {
                        let c = *tape.pick(&COMMENT_TEXTS);
                        let c2 = *tape.pick(&COMMENT_TEXTS);
                        pen.put(&format!(" /* {}\n * {}\n */", c, c2));
                        if tape.chance(1, 2) {
                            pen.put("\n");
                            indent(&mut pen, 0);
                        } else {
                            pen.put(" ");
                        }
                    }
                    _ => {
                        let c = *tape.pick(&COMMENT_TEXTS);
                        pen.put(&format!(" // {}\n", c));
                        let extra = tape.below(2);
                        indent(&mut pen, extra);
                    }
                }
            }
        }
        if tok.s == "{" {
            depth += 1;
        }
        let (l0, c0) = (pen.line, pen.col);
        out.wide_before.push(pen.line_wide);
        out.tab_before.push(pen.line_tab);
        pen.put(&tok.s);
        out.ext.push([l0, c0, pen.line, pen.col]);
    }
    if final_nl {
        pen.put("\n");
    }
    out.eof = (pen.line, pen.col);
    out.text = pen.text;
    out
}

// =============================================================================================
// case construction
// =============================================================================================
fn exts(laid: &Laid, range: (usize, usize)) -> Value {
    let v: Vec<Value> = (range.0..=range.1).filter_map(|i| laid.ext.get(i)).map(|e| json!([e[0], e[1], e[2], e[3]])).collect();
    Value::Array(v)
}

struct Built {
    case: Value,
}

fn build_case(spec: &Spec, tape: &mut Tape, fillers: bool, force_natural: bool, excluded: u64) -> Built {
    let d = spec.depth();
    let mut r = Rend { spec, tape, mods: vec![Src::default(); spec.nmods], uniq: 0, tags: vec![], fillers };
    r.emit_modules();
    let mods = std::mem::take(&mut r.mods);
    let mut tags = std::mem::take(&mut r.tags);
    let tape = r.tape;
    // layout per module
    let mut laid: Vec<Laid> = Vec::new();
    for (mi, src) in mods.iter().enumerate() {
        let mode: u8 = if force_natural { 0 } else { [1u8, 0, 2][tape.weighted(&[7, 2, 1])] };
        let nl_mode = tape.weighted(&[5, 3, 2]) as u8;
        let bom = tape.chance(1, 6);
        let indent_tab = tape.chance(1, 3);
        let final_nl = !tape.chance(1, 4);
        let l = layout(src, tape, mode, nl_mode, bom, indent_tab, final_nl);
        let _ = mi;
        laid.push(l);
    }
    let paths: Vec<String> = (0..spec.nmods).map(|i| PATHSETS[spec.pathset][i].to_string()).collect();
    let fault_mod = spec.module_of_level(d);
    let mods_json: Vec<Value> = (0..spec.nmods).map(|i| json!({"path": paths[i], "src": laid[i].text})).collect();

    for l in &spec.links {
        tags.push(format!("link:{}", l.kind.name()));
    }
    if spec.links.iter().any(|l| l.nested) {
        tags.push("nested-def".into());
    }
    tags.push(format!("depth:{}", d));
    tags.push(format!("mods:{}", spec.nmods));
    if spec.root != 0 {
        tags.push("root-in-helper".into());
    }
    let distinct_mods: std::collections::BTreeSet<usize> = (0..=d).map(|n| spec.module_of_level(n)).collect();
    if distinct_mods.len() > 1 {
        tags.push("cross-module-chain".into());
    }
    for f in &laid[fault_mod].feats {
        tags.push(format!("fault-file:{}", f));
    }

    let (kind, expect, fault_tok): (&str, Value, usize) = match spec.fault {
        Fault::Rt(k, v) => {
            tags.push(format!("fault:{:?}/{}", k, v));
            let mut frames: Vec<Value> = Vec::new();
            for n in (0..=d).rev() {
                let mi = spec.module_of_level(n);
                let key = format!("key{}", n);
                let range = mods[mi].marks.get(&key).copied().unwrap_or((0, 0));
                let (name, cls): (Value, Value) = match spec.kind_of_level(n) {
                    None => (Value::Null, Value::Null),
                    Some(k) if k.is_iife() => (Value::Null, Value::Null),
                    Some(k) => (json!(frame_name(k, n)), if k.is_class() { json!(format!("C{}", n)) } else { Value::Null }),
                };
                let what = if n == d { "faulting expression".to_string() } else { format!("call of link {}", n + 1) };
                frames.push(json!({"name": name.clone(), "cls": cls, "ctor": matches!(spec.kind_of_level(n), Some(LK::Ctor) | Some(LK::SuperCtor)),
                                   "file": paths[mi], "toks": exts(&laid[mi], range), "what": what, "level": n}));
                // a recursive link re-entered itself `reps` times before its body ran
                if spec.kind_of_level(n) == Some(LK::RecFn) {
                    let rr = mods[mi].marks.get(&format!("rec{}", n)).copied().unwrap_or((0, 0));
                    for _ in 0..spec.links[n - 1].reps {
                        frames.push(json!({"name": name, "cls": Value::Null, "ctor": false, "file": paths[mi], "toks": exts(&laid[mi], rr), "what": "recursive call", "level": n}));
                    }
                }
                // a native sits between link n and its caller
                if let Some(k) = spec.kind_of_level(n) {
                    if matches!(k, LK::NativeMap | LK::NativeForEach) {
                        frames.push(json!({"optional": true, "names": ["map", "forEach"], "what": "native frame"}));
                    }
                }
            }
            let err = match k {
                Rt::UndefMember | Rt::CallNonFn | Rt::NewNonCtor | Rt::ConstAssign | Rt::SetUndefMember | Rt::Destructure | Rt::BinOp | Rt::TaggedTemplate => "TypeError",
                Rt::NativeThrow => "SyntaxError",
                Rt::Unresolved | Rt::Tdz => "ReferenceError",
                Rt::Throw => "Error",
            };
            let ft = mods[fault_mod].marks.get(&format!("key{}", d)).map(|r| r.0).unwrap_or(0);
            ("rt", json!({"err": err, "frames": frames, "native_boundary": spec.links.iter().any(|l| l.kind.is_native())}), ft)
        }
        Fault::Syn(v) => {
            tags.push(format!("fault:Syn/{}", v));
            let src = &mods[fault_mod];
            let l = &laid[fault_mod];
            if let Some(r) = src.marks.get("syn-eof") {
                let last = l.ext.get(r.0).copied().unwrap_or([1, 1, 1, 1]);
                ("syn", json!({"module": paths[fault_mod], "eof": [last[2], last[3], l.eof.0, l.eof.1], "variant": v}), r.0)
            } else {
                let r = src.marks.get("syn").copied().unwrap_or((0, 0));
                let mut toks = exts(l, r);
                if v == 18 || v == 28 {
                    // an unterminated template extends to the end of input
                    let first = l.ext.get(r.0).copied().unwrap_or([1, 1, 1, 1]);
                    toks = json!([[first[0], first[1], l.eof.0, l.eof.1 + 1]]);
                }
                ("syn", json!({"module": paths[fault_mod], "toks": toks, "variant": v}), r.0)
            }
        }
    };
    let fl = &laid[fault_mod];
    let fe = fl.ext.get(fault_tok).copied().unwrap_or([1, 1, 1, 1]);
    let wide_before = fl.wide_before.get(fault_tok).copied().unwrap_or(false);
    let tab_before = fl.tab_before.get(fault_tok).copied().unwrap_or(false);
    if wide_before {
        tags.push("wide-before-fault".into());
    }
    if tab_before {
        tags.push("tab-before-fault".into());
    }
    if fe[0] > 1 {
        tags.push("fault-not-on-line-1".into());
    }
    let nontrivial = fe[0] > 1 || wide_before || tab_before || d >= 2;
    let mut excl = Map::new();
    if excluded > 0 {
        excl.insert(GATE_NATIVE.into(), json!(excluded));
    }
    let case = json!({
        "kind": kind,
        "entry": paths[0],
        "mods": mods_json,
        "expect": expect,
        "meta": {"depth": d, "nontrivial": nontrivial, "tags": tags, "excluded": excl, "fault_line": fe[0], "fault_col": fe[1]},
    });
    Built { case }
}

// =============================================================================================
// running the system under test
// =============================================================================================
#[derive(Clone, Debug, Default)]
struct Seen {
    /// "error" | "complete" | "stuck:<why>"
    end: String,
    class: String,
    display: String,
    /// module whose parse failed ("" = entry via prepare, or run-time)
    via: String,
    loc: Option<(Option<String>, u32, u32)>,
    frames: Option<Vec<(Option<String>, Option<String>, u32, u32)>>,
}

fn seen_from_error(e: &JsError, via: &str) -> Seen {
    let mut s = Seen { end: "error".into(), class: engine::error_class(e), display: e.to_string(), via: via.to_string(), ..Seen::default() };
    match e {
        JsError::SyntaxError { location, .. } => {
            s.loc = Some((location.file.clone(), location.line, location.column));
        }
        JsError::TypeError { location: Some(l), .. } => {
            s.loc = Some((l.file.clone(), l.line, l.column));
        }
        JsError::RuntimeError { stack, .. } => {
            s.frames = Some(stack.iter().map(|f| (f.function_name.clone(), f.file.clone(), f.line, f.column)).collect());
        }
        _ => {}
    }
    s
}

fn run_modules(entry: &str, mods: &BTreeMap<String, String>) -> Seen {
    let log = Rc::new(RefCell::new(Vec::new()));
    engine::reset_hooks();
    let mut interp = engine::new_interp(&log);
    tsrun::verif_hooks::vm_instr_set_limit(20_000_000);
    let src = match mods.get(entry) {
        Some(s) => s.clone(),
        None => return Seen { end: "stuck:no-entry".into(), ..Seen::default() },
    };
    let mut res = match interp.prepare(&src, Some(ModulePath::new(entry.to_string()))) {
        Ok(r) => r,
        Err(e) => return seen_from_error(&e, entry),
    };
    let mut steps = 0u64;
    loop {
        match &res {
            StepResult::Continue => {}
            StepResult::Complete(_) | StepResult::Done => return Seen { end: "complete".into(), ..Seen::default() },
            StepResult::Suspended { .. } => return Seen { end: "stuck:suspended".into(), ..Seen::default() },
            StepResult::NeedImports(reqs) => {
                for q in reqs {
                    let path = q.resolved_path.as_str().to_string();
                    match mods.get(&path) {
                        Some(s) => {
                            if let Err(e) = interp.provide_module(q.resolved_path.clone(), s) {
                                return seen_from_error(&e, &path);
                            }
                        }
                        None => return Seen { end: format!("stuck:unknown-module {}", path), ..Seen::default() },
                    }
                }
            }
        }
        steps += 1;
        if steps > 200_000 {
            return Seen { end: "stuck:step-budget".into(), ..Seen::default() };
        }
        res = match interp.step() {
            Ok(r) => r,
            Err(e) => return seen_from_error(&e, ""),
        };
    }
}

// =============================================================================================
// oracle
// =============================================================================================
fn on_token(toks: &Value, line: u32, col: u32) -> bool {
    let Some(a) = toks.as_array() else { return false };
    for t in a {
        let g = |i: usize| t.get(i).and_then(|x| x.as_u64()).unwrap_or(0) as u32;
        let (l0, c0, l1, c1) = (g(0), g(1), g(2), g(3));
        if (line, col) >= (l0, c0) && (line, col) < (l1, c1) {
            return true;
        }
    }
    false
}

fn name_ok(exp: &Value, got: &Option<String>) -> bool {
    let want = exp["name"].as_str();
    match (want, got) {
        (None, None) => true,
        (None, Some(g)) => g.is_empty() || g == "<anonymous>" || g == "<module>" || g == "<top-level>",
        (Some(_), None) => false,
        (Some(w), Some(g)) => {
            if g == w {
                return true;
            }
            if let Some(c) = exp["cls"].as_str() {
                if exp["ctor"].as_bool() == Some(true) {
                    return g == &format!("new {}", c) || g == &format!("{}.constructor", c) || g == "constructor";
                }
                return g == &format!("{}.{}", c, w) || g == &format!("{}.prototype.{}", c, w) || g == &format!("get {}", w);
            }
            false
        }
    }
}

fn frames_json(fr: &[(Option<String>, Option<String>, u32, u32)]) -> Value {
    Value::Array(fr.iter().map(|(n, f, l, c)| json!({"name": n, "file": f, "line": l, "column": c})).collect())
}

/// The printed report must show the same positions as the structured one.
fn display_consistent(seen: &Seen) -> Result<(), String> {
    if let Some(fr) = &seen.frames {
        let lines: Vec<&str> = seen.display.lines().filter(|l| l.trim_start().starts_with("at ")).collect();
        if lines.len() != fr.len() {
            return Err(format!("printed trace has {} `at` lines, the stack has {} frames", lines.len(), fr.len()));
        }
        for (l, (_n, f, line, col)) in lines.iter().zip(fr.iter()) {
            let want = match f {
                Some(f) => format!("({}:{}:{})", f, line, col),
                None => format!(":{}:{})", line, col),
            };
            if !l.ends_with(&want) {
                return Err(format!("printed frame `{}` does not show {}", l.trim(), want));
            }
        }
    }
    if let Some((f, line, col)) = &seen.loc {
        let want = match f {
            Some(f) => format!("{}:{}:{}", f, line, col),
            None => format!("{}:{}", line, col),
        };
        if *line > 0 && !seen.display.contains(&want) {
            return Err(format!("printed error `{}` does not show {}", seen.display, want));
        }
    }
    Ok(())
}

fn judge_runtime(case: &Value, seen: &Seen) -> Exec {
    let exp = &case["expect"];
    let nontrivial = case["meta"]["nontrivial"].as_bool().unwrap_or(false);
    let mut tags: Vec<String> = vec![];
    if seen.end != "error" {
        return Exec::discard(format!("runtime fault did not fail the run ({})", seen.end.split(' ').next().unwrap_or("")));
    }
    let want_err = exp["err"].as_str().unwrap_or("");
    if seen.frames.is_none() && seen.loc.is_none() {
        // the property is conditional on the error carrying a location or a stack trace
        return Exec::pass(false).with_tags(vec![format!("unjudged:no-location-carried({})", seen.class.chars().take(24).collect::<String>())]);
    }
    if seen.class != want_err {
        return Exec::discard(format!("run failed with {} where the planted fault raises {}", seen.class.chars().take(40).collect::<String>(), want_err));
    }
    // positions carried?
    let Some(fr) = &seen.frames else {
        if let Some((file, line, col)) = &seen.loc {
            // a bare location: judged like the innermost frame
            let inner = &exp["frames"][0];
            if let Some(f) = file {
                if Some(f.as_str()) != inner["file"].as_str() {
                    return Exec::fail("c20:location-file", format!("error location names file {:?}, the fault is in {}", f, inner["file"]));
                }
            }
            if !on_token(&inner["toks"], *line, *col) {
                return Exec::fail("c20:innermost-position", format!("location {}:{} is outside the faulting expression {}", line, col, inner["toks"]));
            }
            return Exec::pass(nontrivial).with_tags(vec!["judged:bare-location".into()]);
        }
        return Exec::pass(false).with_tags(vec!["unjudged:no-location-carried".into()]);
    };
    if fr.is_empty() {
        tags.push("unjudged:empty-stack".into());
        return Exec::pass(false).with_tags(tags);
    }
    if let Err(m) = display_consistent(seen) {
        return Exec::fail("c20:display-mismatch", m);
    }
    let native_boundary = exp["native_boundary"].as_bool().unwrap_or(false);
    let sig_suffix = if native_boundary { " native-boundary" } else { "" };
    let expected: Vec<&Value> = exp["frames"].as_array().map(|a| a.iter().collect()).unwrap_or_default();
    let mut oi = 0usize; // observed index
    let required = expected.iter().filter(|e| e["optional"].as_bool() != Some(true)).count();
    for (ei, e) in expected.iter().enumerate() {
        if e["optional"].as_bool() == Some(true) {
            if let Some((Some(n), _, _, _)) = fr.get(oi) {
                if e["names"].as_array().map(|a| a.iter().any(|x| x.as_str() == Some(n.as_str()))).unwrap_or(false) {
                    oi += 1;
                }
            }
            continue;
        }
        let Some((name, file, line, col)) = fr.get(oi) else {
            return Exec::fail(
                format!("c20:frame-count{}", sig_suffix),
                format!("the trace has {} frames, {} calls are active (missing from frame #{}: {} `{}`); trace = {}", fr.len(), required, oi, e["what"].as_str().unwrap_or(""), e["name"], frames_json(fr)),
            );
        };
        if !name_ok(e, name) {
            // distinguish a missing/extra frame from a misnamed one: does the name match a later expectation?
            return Exec::fail(
                format!("c20:frame-name{}", sig_suffix),
                format!("frame #{} is named {:?}; the active call at this depth is {} (expected #{}); trace = {}", oi, name, e["name"], ei, frames_json(fr)),
            );
        }
        match file {
            Some(f) => {
                if Some(f.as_str()) != e["file"].as_str() {
                    return Exec::fail("c20:frame-file", format!("frame #{} ({:?}) names file {:?}; the code is in {}", oi, name, f, e["file"]));
                }
            }
            None => {
                // every module of a case is loaded under a path, so a frame can always name its file
                return Exec::fail("c20:frame-file-missing", format!("frame #{} ({:?}) at {}:{} names no file although its module was loaded as {}; trace = {}", oi, name, line, col, e["file"], frames_json(fr)));
            }
        }
        if !on_token(&e["toks"], *line, *col) {
            let sig = if ei == 0 { "c20:innermost-position" } else { "c20:caller-position" };
            return Exec::fail(
                sig,
                format!("frame #{} ({:?}) reports {}:{}, which is not on a token of the {} {} in {}", oi, name, line, col, e["what"].as_str().unwrap_or(""), e["toks"], e["file"]),
            );
        }
        oi += 1;
    }
    if oi != fr.len() {
        return Exec::fail(
            format!("c20:frame-count{}", sig_suffix),
            format!("the trace has {} frames but only {} calls are active; extra frame #{} = {:?}; trace = {}", fr.len(), required, oi, fr.get(oi), frames_json(fr)),
        );
    }
    tags.push("judged:trace".into());
    Exec::pass(nontrivial).with_tags(tags)
}

fn judge_syntax(case: &Value, seen: &Seen) -> Exec {
    let exp = &case["expect"];
    let nontrivial = case["meta"]["nontrivial"].as_bool().unwrap_or(false);
    if seen.end != "error" || seen.class != "SyntaxError" {
        // the property is conditional on the run failing with a syntax error
        let what = if seen.end == "error" { format!("failed-with-{}", seen.class.chars().take(24).collect::<String>()) } else { seen.end.split(' ').next().unwrap_or("").to_string() };
        return Exec::pass(false).with_tags(vec![format!("unjudged:syntax-fault-not-reported({})", what)]);
    }
    let Some((file, line, col)) = &seen.loc else {
        return Exec::pass(false).with_tags(vec!["unjudged:no-location-carried".into()]);
    };
    if *line == 0 {
        return Exec::pass(false).with_tags(vec!["unjudged:no-location-carried".into()]);
    }
    let module = exp["module"].as_str().unwrap_or("");
    if seen.via != module {
        return Exec::discard(format!("syntax error raised while parsing another module than the faulty one"));
    }
    if let Err(m) = display_consistent(seen) {
        return Exec::fail("c20:display-mismatch", m);
    }
    if let Some(f) = file {
        if f != module {
            return Exec::fail("c20:syntax-file", format!("SyntaxError names file {:?}; the fault is in {}", f, module));
        }
    }
    if let Some(eof) = exp["eof"].as_array() {
        let g = |i: usize| eof.get(i).and_then(|x| x.as_u64()).unwrap_or(0) as u32;
        let ok = (*line, *col) >= (g(0), g(1)) && (*line, *col) <= (g(2), g(3));
        if !ok {
            return Exec::fail("c20:syntax-position", format!("SyntaxError `{}` reports {}:{}; the input ends inside an open block: expected a position between the end of the last token {}:{} and end of input {}:{}", seen.display, line, col, g(0), g(1), g(2), g(3)));
        }
    } else if !on_token(&exp["toks"], *line, *col) {
        return Exec::fail("c20:syntax-position", format!("SyntaxError `{}` reports {}:{}, which is not inside the offending token {} of {}", seen.display, line, col, exp["toks"], module));
    }
    Exec::pass(nontrivial).with_tags(vec!["judged:syntax".into()])
}

// =============================================================================================
// enumerated grid
// =============================================================================================
fn synthetic_tape(seed: u64, len: usize) -> Vec<u32> {
    let mut s = seed;
    (0..len)
        .map(|_| {
            s = splitmix64(s);
            (s >> 32) as u32
        })
        .collect()
}

fn grid_specs(gate_native: bool) -> Vec<Spec> {
    let mut out = Vec::new();
    let mut kinds: Vec<LK> = PLAIN_KINDS.to_vec();
    if !gate_native {
        kinds.extend_from_slice(&NATIVE_KINDS);
    }
    let link = |k: LK| Link { kind: k, module: 0, nested: false, alias: false, computed_call: false, typed: false, export_inline: true, argv: 0, reps: 2 };
    // depth 1: link kind x run-time fault variant x embedding
    for k in &kinds {
        for (rk, nv) in RT_VARIANTS.iter() {
            for v in 0..*nv {
                for e in 0..N_EMBED {
                    let mut s = Spec { nmods: 1, pathset: 0, root: 0, links: vec![link(*k)], fault: Fault::Rt(*rk, v), embeds: vec![0, e], wraps: vec![vec![], vec![]], chain_order: true };
                    normalise(&mut s);
                    if s.embeds[1] == e && s.fault == Fault::Rt(*rk, v) {
                        out.push(s);
                    }
                }
            }
        }
    }
    // depth 2: caller kind x callee kind (incl. super links) x call-site embedding, one fault
    let mut callees = kinds.clone();
    callees.push(LK::SuperCtor);
    callees.push(LK::SuperMethod);
    for k1 in &kinds {
        for k2 in &callees {
            for e in 0..N_EMBED {
                for nested in [false, true] {
                    let mut l2 = link(*k2);
                    l2.nested = nested;
                    let mut s = Spec { nmods: 1, pathset: 0, root: 0, links: vec![link(*k1), l2], fault: Fault::Rt(Rt::UndefMember, 0), embeds: vec![0, e, 0], wraps: vec![vec![], vec![], vec![]], chain_order: false };
                    normalise(&mut s);
                    if s.links[1].kind == *k2 && s.embeds[1] == e && s.links[1].nested == nested && s.links[0].kind == *k1 {
                        out.push(s);
                    }
                }
            }
        }
    }
    // syntactic faults at depth 0 and inside a function body, every wrapper
    for v in 0..N_SYN {
        for w in 0..N_WRAP {
            if v >= N_SYN_BASE && w > 0 {
                continue;
            }
            for d in 0..2usize {
                let links = if d == 0 { vec![] } else { vec![link(LK::FnDecl)] };
                let mut wraps = vec![vec![]; d + 1];
                if w > 0 {
                    wraps[d].push(w);
                }
                let mut s = Spec { nmods: 1, pathset: 0, root: 0, links, fault: Fault::Syn(v), embeds: vec![0; d + 1], wraps, chain_order: true };
                normalise(&mut s);
                out.push(s);
            }
        }
    }
    // run-time fault kinds under every wrapper, at top level and in a function
    for (rk, nv) in RT_VARIANTS.iter() {
        for w in 1..N_WRAP {
            for d in 0..2usize {
                let links = if d == 0 { vec![] } else { vec![link(LK::Method)] };
                let mut wraps = vec![vec![]; d + 1];
                wraps[d].push(w);
                let mut s = Spec { nmods: 1, pathset: 0, root: 0, links, fault: Fault::Rt(*rk, nv - 1), embeds: vec![0; d + 1], wraps, chain_order: true };
                normalise(&mut s);
                out.push(s);
            }
        }
    }
    out
}

// =============================================================================================
// the property
// =============================================================================================
impl Property for C20Prop {
    fn id(&self) -> &'static str {
        "C20"
    }
    fn rule(&self) -> String {
        "Programs are emitted token by token through a layout engine that records every token's (line, column) extent in the lexer's convention (1-based lines; 1-based columns in Unicode scalar values; tab, CR and BOM count one column; only LF ends a line). A fault is planted at a marked token range: run-time (undefined/null member read in 9 spellings, call of a non-function in 6, unresolvable identifier, TDZ read, `new` of a non-constructor, assignment to a const, explicit `throw new Error`) or syntactic (33 statement-level forms: unexpected token, missing bracket, invalid character, legacy octal, unterminated string/template, input ending inside an open block, invalid assignment/destructuring target, duplicate parameter, doubled postfix operator; plus 7 broken expressions — stray bracket, missing comma, empty property value, unterminated string, adjacent identifiers, invalid character — inside 40 syntactic contexts: template substitution, typed/untyped/async arrow parameter defaults, arrow bodies, generic call arguments, <T> and `as` assertions, object/class members, destructuring defaults, for/switch/while/if heads, computed keys, after a regex literal, optional call, tagged template, enum initialiser, typed declarations). It sits under a call chain of depth 0..6 (quick) / 0..12 (thorough) whose links are function declarations, const function expressions (named/anonymous), block- and expression-bodied arrows, instance/static methods, constructors, super(..) and super.m(..) calls, object-literal methods/function/arrow properties (getters and callbacks of natives only when the known finding is closed), defined at module level or nested, spread over 1..3 modules with four path layouts (incl. non-ASCII paths), the failing top-level call in the entry or in a helper module; every call site and the fault are embedded in 14 expression contexts and up to two statement wrappers (block, if, if/else, for, try/finally, label, switch, do-while). Between any two tokens the tape chooses nothing/space/tab/newline+indent/blank lines/block comment/multi-line block comment/line comment (ASCII, BMP and astral text), per file LF/CRLF/mixed line ends, leading BOM, tab or space indentation; filler statements add string, (multi-line) template, regex literals, TS annotations/interfaces, completed decoy calls and caught faults before the fault. Oracle (closed form stored in the case): the error class is the planted one; SyntaxError.location lies inside the offending token (or between the last token and end of input), a named file is the faulty module; RuntimeError.stack lists exactly the active calls innermost first with the generator's function names (top level = unnamed last frame), every frame names the module that contains its code, the innermost position lies on a token of the faulting expression and every outer position on a token of its call expression; the printed report shows the same positions. Errors without location/stack are counted as unjudged. Enumerated part: link kind x fault variant x embedding at depth 1, caller kind x callee kind x embedding at depth 2, every statement-level syntactic fault x wrapper x {top level, function body}, every broken expression x context x {top level, function body}, canonical and one dense layout each. Non-trivial: the fault is not on line 1, or is preceded on its line by a tab or non-ASCII text, or the chain depth is >= 2; distinct = distinct rendered cases.".into()
    }
    fn assumptions(&self) -> Vec<String> {
        vec![
            "the position bookkeeping of the layout engine (Pen::put in harness/src/props/c20.rs: LF starts a new line, every other scalar value is one column) is the convention the property is judged in; a leading BOM and a CR before LF count as columns because they are scalar values".into(),
            "which token is 'offending' for a syntactic fault is fixed by construction: the first token at which the text stops being a prefix of any valid program (unterminated literals: the literal itself)".into(),
            "frame names follow the engine's consistent convention: the function's own name, the inferred binding/property name for anonymous functions, the class name for constructors, no name for module top level (ClassName.method spellings are accepted too)".into(),
        ]
    }
    fn plan(&self, tier: Tier) -> Plan {
        // thorough: each case is journalled before it runs (~4 KB per case), so the case count is
        // also bounded by disk: 16 x 120k cases ~ 8 GB of journals (deleted by the next run)
        Plan { shards: 16, cases_per_shard: tier.pick(25_000, 120_000), tape_len: tier.pick(1600, 2800), watchdog_s: tier.pick(900, 7200) }
    }
    fn exhaustive_part(&self, _tier: Tier) -> Option<String> {
        Some("grid: (link kind x run-time fault variant x embedding) at depth 1, (caller kind x callee kind x call-site embedding x nested/module-level) at depth 2, (syntactic fault x wrapper x {top level, function body}), (run-time fault kind x wrapper x {top level, method}) — each in the canonical layout and in one dense pseudo-random layout".into())
    }
    fn fixed_cases(&self, ctx: &Ctx) -> Vec<Value> {
        let specs = grid_specs(ctx.gates.excluded(GATE_NATIVE));
        let mut out = Vec::new();
        for (i, s) in specs.iter().enumerate() {
            if i % ctx.nshards != ctx.shard {
                continue;
            }
            // canonical layout: no fillers, natural formatting
            let empty: Vec<u32> = vec![];
            let mut t = Tape::new(&empty);
            out.push(build_case(s, &mut t, false, true, 0).case);
            // dense layout: fillers and separators from a fixed pseudo-random tape
            let syn = synthetic_tape(0xC20 ^ (i as u64) << 8, 900);
            let mut t = Tape::new(&syn);
            out.push(build_case(s, &mut t, true, false, 0).case);
        }
        out
    }
    fn generate(&self, tape: &mut Tape, ctx: &Ctx) -> Value {
        let mut excluded = 0u64;
        let max_depth = ctx.tier.pick(6, 12);
        let spec = plan_spec(tape, ctx, max_depth, &mut excluded);
        build_case(&spec, tape, true, false, excluded).case
    }
    fn execute(&self, case: &Value, _ctx: &mut Ctx) -> Exec {
        let entry = case["entry"].as_str().unwrap_or("").to_string();
        let mut mods: BTreeMap<String, String> = BTreeMap::new();
        if let Some(a) = case["mods"].as_array() {
            for m in a {
                mods.insert(m["path"].as_str().unwrap_or("").to_string(), m["src"].as_str().unwrap_or("").to_string());
            }
        }
        let seen = run_modules(&entry, &mods);
        tsrun::verif_hooks::vm_instr_set_limit(0);
        let mut ex = if seen.end.starts_with("stuck") {
            Exec::discard(format!("generator: {}", seen.end.split(' ').next().unwrap_or("")))
        } else if case["kind"].as_str() == Some("syn") {
            judge_syntax(case, &seen)
        } else {
            judge_runtime(case, &seen)
        };
        // tags: the case's features + the verdict's
        let mut tags: Vec<String> = case["meta"]["tags"].as_array().map(|a| a.iter().filter_map(|x| x.as_str().map(|s| s.to_string())).collect()).unwrap_or_default();
        tags.append(&mut ex.tags);
        tags.sort();
        tags.dedup();
        ex.tags = tags;
        if let Some(o) = case["meta"]["excluded"].as_object() {
            for (k, v) in o {
                ex.counters.push((format!("excluded_by_gate:{}", k), v.as_u64().unwrap_or(0)));
            }
        }
        ex.observed = json!({"end": seen.end, "class": seen.class, "report": seen.display, "via": seen.via,
            "location": seen.loc.as_ref().map(|(f, l, c)| json!({"file": f, "line": l, "column": c})),
            "frames": seen.frames.as_ref().map(|f| frames_json(f))});
        ex
    }
}
