//! C05 — every source text is accepted or rejected cleanly, in bounded work.
//!
//! Domains: (1) bytes -> lossy UTF-8 / valid UTF-8 with every line terminator, BOM, non-ASCII;
//! (2) token soup over the JS/TS vocabulary and a template grammar with injected glitches;
//! (3) prefixes / single-token deletions, duplications, replacements of an embedded corpus of
//! valid programs (enumerated exhaustively for prefix/delete/dup, sampled for replace/insert);
//! (4) nesting / length families with a size parameter n (sweep n=0..=320, doubling series,
//! deep probes, random composites of wrappers).
//!
//! Oracle: every route (Parser::parse_program + Compiler::compile_program, Interpreter::prepare
//! as script and as module, Interpreter::provide_module) returns Ok or Err(JsError): no panic, no
//! process death (each case runs on a fresh thread with a fixed 8 MiB stack; the supervisor
//! attributes a dead worker to the journaled case), and the H2 parser work counter stays below
//! 64 + 40*len + 4*len^2 (armed as a limit, so a runaway parse is a deterministic panic). For the
//! families the series w(n), n = 8,16,32,.. must satisfy w(2n)/w(n) <= 5.

use crate::core::{guarded, Ctx, Exec, Plan, Property, Tier};
use crate::engine::error_class;
use crate::tape::Tape;
use serde_json::{json, Value};

pub struct C05Prop;
pub static C05: C05Prop = C05Prop;

/// Fixed stack of the thread every case runs on (the default main-thread size on Linux).
pub const STACK_BYTES: usize = 8 << 20;
const WORK_LIMIT_MSG: &str = "verif: parser work limit exceeded";
const MAX_RATIO: f64 = 5.0;

pub fn work_bound(len: usize) -> u64 {
    let l = len as u64;
    64u64.saturating_add(l.saturating_mul(40)).saturating_add(l.saturating_mul(l).saturating_mul(4))
}

// ---------------------------------------------------------------------------------------------
// running one text through the system under test
// ---------------------------------------------------------------------------------------------
pub const ROUTES: [&str; 4] = ["parse+compile", "prepare-script", "prepare-module", "provide-module"];

#[derive(Clone, Debug, Default)]
pub struct Probe {
    /// parser work of the parse+compile route (the other routes parse the same text once, too)
    pub w: u64,
    pub w_max: u64,
    pub outcomes: Vec<String>,
    /// (signature, message) of the first violation
    pub fail: Option<(String, String)>,
}

fn run_route(src: &str, route: usize) -> (String, u64, Option<String>) {
    use tsrun::verif_hooks as h;
    let bound = work_bound(src.len());
    let r = guarded(|| -> String {
        match route {
            0 => {
                let mut dict = tsrun::StringDict::new();
                h::parser_work_reset();
                h::parser_work_set_limit(bound);
                let mut p = tsrun::parser::Parser::new(src, &mut dict);
                let parsed = p.parse_program();
                h::parser_work_set_limit(0);
                match parsed {
                    Ok(prog) => match tsrun::compiler::Compiler::compile_program(&prog) {
                        Ok(_) => "ok".to_string(),
                        Err(e) => format!("compile-err:{}", error_class(&e)),
                    },
                    Err(e) => format!("err:{}", error_class(&e)),
                }
            }
            1 | 2 => {
                let mut it = tsrun::Interpreter::new();
                h::parser_work_reset();
                h::parser_work_set_limit(bound);
                let path = if route == 2 { Some(tsrun::ModulePath::new("/main.ts".to_string())) } else { None };
                let r = it.prepare(src, path);
                h::parser_work_set_limit(0);
                match r {
                    Ok(tsrun::StepResult::NeedImports(_)) => "ok:need-imports".to_string(),
                    Ok(_) => "ok".to_string(),
                    Err(e) => format!("err:{}", error_class(&e)),
                }
            }
            _ => {
                let mut it = tsrun::Interpreter::new();
                h::parser_work_reset();
                h::parser_work_set_limit(bound);
                let r = it.provide_module(tsrun::ModulePath::new("/dep.ts".to_string()), src);
                h::parser_work_set_limit(0);
                match r {
                    Ok(()) => "ok".to_string(),
                    Err(e) => format!("err:{}", error_class(&e)),
                }
            }
        }
    });
    let w = h::parser_work_get();
    h::parser_work_set_limit(0);
    match r {
        Ok(o) => (o, w, None),
        Err(p) => (String::new(), w, Some(p)),
    }
}

type Job = Box<dyn FnOnce() + Send + 'static>;
static RUNNER: std::sync::Mutex<Option<std::sync::mpsc::Sender<Job>>> = std::sync::Mutex::new(None);

fn spawn_runner() -> Result<std::sync::mpsc::Sender<Job>, String> {
    // VERIF_C05_STACK_KIB: experiments only (e.g. 2048 to see what a default Rust thread would survive)
    let stack = std::env::var("VERIF_C05_STACK_KIB").ok().and_then(|s| s.parse::<usize>().ok()).map(|k| k << 10).unwrap_or(STACK_BYTES);
    let (tx, rx) = std::sync::mpsc::channel::<Job>();
    std::thread::Builder::new()
        .stack_size(stack)
        .name("c05-case".into())
        .spawn(move || {
            while let Ok(job) = rx.recv() {
                job();
            }
        })
        .map_err(|e| format!("infra: cannot spawn case thread: {}", e))?;
    Ok(tx)
}

/// Runs `f` on the worker's case thread, which has the fixed 8 MiB stack (one long-lived thread
/// per process: its stack pages stay resident, so a case costs its instructions, not page
/// faults). A stack overflow kills the process (that is what the supervisor's journal is for); a
/// panic is caught inside `f` by `guarded`; should one escape, the thread is replaced.
fn on_fixed_stack<T: Send + 'static>(f: impl FnOnce() -> T + Send + 'static) -> Result<T, String> {
    let (rtx, rrx) = std::sync::mpsc::channel::<T>();
    let mut job: Option<Job> = Some(Box::new(move || {
        let _ = rtx.send(f());
    }));
    let mut guard = RUNNER.lock().unwrap_or_else(|e| e.into_inner());
    for _attempt in 0..2 {
        if guard.is_none() {
            *guard = Some(spawn_runner()?);
        }
        let tx = guard.as_ref().map(|t| t.clone());
        match (tx, job.take()) {
            (Some(tx), Some(j)) => match tx.send(j) {
                Ok(()) => break,
                Err(back) => {
                    // runner gone (an earlier job panicked through it): replace it and retry
                    job = Some(back.0);
                    *guard = None;
                }
            },
            _ => break,
        }
    }
    match rrx.recv() {
        Ok(v) => Ok(v),
        Err(_) => {
            *guard = None;
            Err("panic: escaped the case thread".to_string())
        }
    }
}

pub fn probe_text(src: &str, routes: u8) -> Probe {
    let owned = src.to_string();
    let r = on_fixed_stack(move || {
        let mut p = Probe::default();
        for route in 0..4usize {
            if routes & (1 << route) == 0 || p.fail.is_some() {
                continue;
            }
            let (o, w, panic) = run_route(&owned, route);
            if route == 0 || p.w == 0 {
                p.w = w;
            }
            p.w_max = p.w_max.max(w);
            if let Some(pm) = panic {
                if p.fail.is_none() {
                    if pm.contains(WORK_LIMIT_MSG) {
                        p.fail = Some((
                            format!("c05:work-bound exceeded via {}", ROUTES[route]),
                            format!(
                                "parser work exceeded 64+40*len+4*len^2 = {} for a {}-byte input via {} (runaway speculative parsing)",
                                work_bound(owned.len()),
                                owned.len(),
                                ROUTES[route]
                            ),
                        ));
                    } else {
                        p.fail = Some((pm.clone(), format!("{} via {}", pm, ROUTES[route])));
                    }
                }
                p.outcomes.push(format!("{}=PANIC", ROUTES[route]));
            } else {
                p.outcomes.push(format!("{}={}", ROUTES[route], o));
            }
        }
        p
    });
    match r {
        Ok(p) => p,
        Err(e) => Probe { fail: Some((e.clone(), e)), ..Probe::default() },
    }
}

// ---------------------------------------------------------------------------------------------
// (4) families
// ---------------------------------------------------------------------------------------------
#[derive(Clone, Copy)]
pub struct Fam {
    pub name: &'static str,
    pre: &'static str,
    open: &'static str,
    core: &'static str,
    close: &'static str,
    post: &'static str,
    /// 'E' expression wrapper, 'S' statement wrapper, 'T' type wrapper, 'L' length-only (no composites)
    ctx: char,
}

const fn fam(name: &'static str, ctx: char, pre: &'static str, open: &'static str, core: &'static str, close: &'static str, post: &'static str) -> Fam {
    Fam { name, pre, open, core, close, post, ctx }
}

pub const FAMILIES: &[Fam] = &[
    // ---- expression nesting
    fam("paren", 'E', "", "(", "1", ")", ""),
    fam("bracket", 'E', "x=", "[", "", "]", ""),
    fam("bracket-elem", 'E', "x=", "[1,", "2", "]", ""),
    fam("object", 'E', "x=", "{a:", "1", "}", ""),
    fam("object-computed", 'E', "x=", "{[", "1", "]:1}", ""),
    fam("object-method", 'E', "x=", "{m(){return ", "1", "}}", ""),
    fam("call-nest", 'E', "", "f(", "1", ")", ""),
    fam("new-nest", 'E', "", "new F(", "1", ")", ""),
    fam("index-nest", 'E', "", "a[", "0", "]", ""),
    fam("template-nest", 'E', "x=", "`a${", "1", "}b`", ""),
    fam("tagged-template-nest", 'E', "x=", "t`${", "1", "}`", ""),
    fam("paren-assign", 'E', "", "(a = ", "1", ")", ""),
    fam("paren-objpat-default", 'E', "", "({a = ", "1", "})", ""),
    fam("paren-arrpat-default", 'E', "", "([a = ", "1", "])", ""),
    fam("arrow-default", 'E', "x=", "((a = ", "1", ") => 1)", ""),
    fam("arrow-objpat-default", 'E', "x=", "(({a = ", "1", "}) => 1)", ""),
    fam("paren-seq", 'E', "", "(a, ", "1", ")", ""),
    fam("paren-cond", 'E', "", "(", "a", ") ? b : c", ""),
    fam("paren-typed", 'E', "x=", "((a: A = ", "1", ") => 1)", ""),
    fam("unary-not", 'E', "", "!", "x", "", ""),
    fam("unary-minus", 'E', "", "- ", "x", "", ""),
    fam("unary-tilde", 'E', "", "~", "x", "", ""),
    fam("unary-typeof", 'E', "", "typeof ", "x", "", ""),
    fam("unary-void", 'E', "", "void ", "x", "", ""),
    fam("unary-await", 'E', "", "await ", "x", "", ""),
    fam("unary-preinc", 'E', "", "++ ", "x", "", ""),
    fam("spread-array", 'E', "x=", "[...", "a", "]", ""),
    fam("spread-object", 'E', "x=", "{...", "a", "}", ""),
    fam("cond-right", 'E', "", "a?b:", "c", "", ""),
    fam("cond-middle", 'E', "", "a?", "b", ":c", ""),
    fam("cond-paren-colon", 'E', "", "x?(a):", "c", "", ""),
    fam("exp-right", 'E', "", "a**", "a", "", ""),
    fam("assign-chain", 'E', "", "a=", "1", "", ""),
    fam("compound-assign-chain", 'E', "", "a+=", "1", "", ""),
    fam("add-left", 'E', "", "", "a", "+a", ""),
    fam("mul-add-left", 'E', "", "", "a", "*a-a", ""),
    fam("and-left", 'E', "", "", "a", "&&a", ""),
    fam("or-left", 'E', "", "", "a", "||a", ""),
    fam("nullish-left", 'E', "", "", "a", "??a", ""),
    fam("comma-left", 'E', "", "", "a", ",a", ""),
    fam("instanceof-left", 'E', "", "", "a", " instanceof a", ""),
    fam("lt-left", 'E', "", "", "a", "<a", ""),
    fam("lt-right-paren", 'E', "", "a<(", "b", ")", ""),
    fam("gt-left", 'E', "", "", "a", ">a", ""),
    fam("arrow-chain", 'E', "x=", "a=>", "a", "", ""),
    fam("arrow-paren-chain", 'E', "x=", "(a)=>", "a", "", ""),
    fam("arrow-async-chain", 'E', "x=", "async a=>", "a", "", ""),
    fam("arrow-async-paren-chain", 'E', "x=", "async(a)=>", "a", "", ""),
    fam("arrow-block", 'E', "x=", "()=>{return ", "1", "}", ""),
    fam("arrow-typed", 'E', "x=", "(a:A):B=>", "1", "", ""),
    fam("arrow-generic", 'E', "x=", "<T>(a:T)=>", "1", "", ""),
    fam("call-chain", 'E', "", "", "f", "()", ""),
    fam("member-chain", 'E', "", "", "a", ".b", ""),
    fam("index-chain", 'E', "", "", "a", "[0]", ""),
    fam("optional-chain", 'E', "", "", "a", "?.b", ""),
    fam("optional-call-chain", 'E', "", "", "a", "?.()", ""),
    fam("non-null-chain", 'E', "", "", "a", "!", ""),
    fam("tagged-chain", 'E', "", "", "a", "`t`", ""),
    fam("as-chain", 'E', "", "", "a", " as T", ""),
    fam("satisfies-chain", 'E', "", "", "a", " satisfies T", ""),
    fam("new-chain", 'E', "", "new ", "X", "", ""),
    fam("new-call-chain", 'E', "", "new ", "X", "()", ""),
    fam("function-expr", 'E', "x=", "function(){return ", "1", "}", ""),
    fam("generator-expr", 'E', "x=", "function*(){yield ", "1", "}", ""),
    fam("async-function-expr", 'E', "x=", "async function(){return await ", "1", "}", ""),
    fam("class-expr-method", 'E', "x=", "class{m(){return ", "1", "}}", ""),
    fam("class-expr-static-field", 'E', "x=", "class{static x=", "1", "}", ""),
    fam("class-expr-extends", 'E', "x=", "class extends ", "X", "{}", ""),
    fam("angle-assertion", 'E', "x=", "<T>", "a", "", ""),
    fam("generic-call-nest", 'E', "", "f<T>(", "1", ")", ""),
    fam("generic-call-typeargs", 'E', "", "f<A<", "B", ">>()", ""),
    fam("import-call-nest", 'E', "", "import(", "'m'", ")", ""),
    fam("yield-chain", 'L', "function*g(){", "yield ", "1", "", "}"),
    fam("regex-division", 'E', "x=", "a / ", "b", " / c", ""),
    // ---- statement nesting
    fam("block", 'S', "", "{", "", "}", ""),
    fam("if-chain", 'S', "", "if(a)", ";", "", ""),
    fam("if-block", 'S', "", "if(a){", "", "}", ""),
    fam("if-else-ladder", 'S', "", "if(a){}else ", "{}", "", ""),
    fam("if-else-nested", 'S', "", "if(a)", ";", " else ;", ""),
    fam("while", 'S', "", "while(a)", ";", "", ""),
    fam("for", 'S', "", "for(;;)", ";", "", ""),
    fam("for-in", 'S', "", "for(a in b)", ";", "", ""),
    fam("for-of-block", 'S', "", "for(const a of b){", "", "}", ""),
    fam("do-while", 'S', "", "do ", ";", " while(a);", ""),
    fam("try-catch", 'S', "", "try{", "", "}catch(e){}", ""),
    fam("try-finally", 'S', "", "try{}finally{", "", "}", ""),
    fam("switch", 'S', "", "switch(a){case 1:", "", "}", ""),
    fam("function-decl", 'S', "", "function f(){", "", "}", ""),
    fam("async-function-decl", 'S', "", "async function f(){", "", "}", ""),
    fam("generator-decl", 'S', "", "function*f(){", "", "}", ""),
    fam("class-decl-method", 'S', "", "class A{m(){", "", "}}", ""),
    fam("class-static-block", 'S', "", "class A{static{", "", "}}", ""),
    fam("same-label", 'S', "", "a:", ";", "", ""),
    fam("namespace", 'S', "", "namespace N{", "", "}", ""),
    fam("namespace-export", 'S', "", "namespace N{export ", "const a=1;", "}", ""),
    fam("declare-namespace", 'S', "declare ", "namespace N{", "", "}", ""),
    fam("arrow-stmt", 'S', "", "x=()=>{", "", "};", ""),
    fam("let-array-pattern", 'L', "let ", "[", "a", "]", "=x"),
    fam("let-object-pattern", 'L', "let ", "{a:", "b", "}", "=x"),
    fam("let-pattern-default", 'L', "let ", "[a=", "1", "]", "=x"),
    fam("param-array-pattern", 'L', "function f(", "[", "a", "]", "){}"),
    fam("assign-array-pattern", 'L', "", "[", "a", "]", "=x"),
    fam("for-of-pattern", 'L', "for(const ", "[", "a", "]", " of x);"),
    fam("catch-pattern", 'L', "try{}catch(", "{a:", "b", "}", "){}"),
    fam("decorator-list", 'L', "", "@d ", "class A{}", "", ""),
    fam("decorator-at-only", 'L', "", "@", "d class A{}", "", ""),
    fam("decorator-expr-at-only", 'L', "x=", "@", "d class{}", "", ""),
    fam("decorator-paren-nest", 'L', "", "@(", "d", ")", " class A{}"),
    fam("declare-module-nest", 'L', "declare ", "module M{", "", "}", ""),
    fam("declare-namespace-export", 'L', "declare ", "namespace N{export ", "const a:A;", "}", ""),
    fam("export-chain", 'L', "", "export ", "const a=1", "", ""),
    fam("export-default-chain", 'L', "", "export default ", "1", "", ""),
    fam("abstract-chain", 'L', "", "abstract ", "class A{}", "", ""),
    fam("async-chain", 'L', "", "async ", "function f(){}", "", ""),
    fam("new-member-nest", 'L', "", "new a[", "0", "]", ""),
    fam("class-heritage-call", 'L', "", "class A extends f(", "B", ")", "{}"),
    fam("class-member-computed", 'L', "", "class A{[", "1", "](){}}", ""),
    fam("class-field-class", 'L', "", "class A{a=", "1", "}", ""),
    fam("object-getter-nest", 'L', "x=", "{get a(){return ", "1", "}}", ""),
    fam("interface-method-nest", 'L', "interface I{", "m(a:{", "", "}):A;", "}"),
    fam("type-params-constraint", 'L', "function f", "<T extends A<", "B", ">>", "(){}"),
    fam("type-predicate-nest", 'L', "function f(a):a is ", "A<", "B", ">", "{}"),
    fam("type-tuple-named", 'L', "type X=", "[a:", "A", "]", ""),
    fam("type-readonly-array", 'L', "type X=", "readonly ", "A[]", "", ""),
    fam("type-infer-extends", 'L', "type X=A extends ", "infer U extends ", "B", "", "?1:0"),
    fam("type-typeof-chain", 'L', "type X=typeof a", ".b", "", "", ""),
    fam("type-qualified-generic", 'L', "type X=", "A.B<", "C", ">", ""),
    fam("enum-member-init-chain", 'L', "enum E{A=1", "+1", "", "", "}"),
    fam("for-init-paren", 'L', "for(", "(", "a", ")", ";;);"),
    fam("for-in-paren", 'L', "for(a in ", "(", "b", ")", ");"),
    fam("switch-case-expr", 'L', "switch(a){case ", "(", "1", ")", ":}"),
    fam("throw-paren", 'L', "throw ", "(", "1", ")", ""),
    fam("return-arrow", 'L', "function f(){return ", "()=>", "1", "", "}"),
    fam("default-param-arrow", 'L', "function f(a=", "(b=", "1", ")=>b", "){}"),
    fam("template-tag-member", 'L', "x=a", ".b`${", "1", "}`", ""),
    fam("optional-index-nest", 'L', "", "a?.[", "0", "]", ""),
    fam("await-paren", 'L', "", "await (", "1", ")", ""),
    fam("yield-paren", 'L', "function*g(){", "yield (", "1", ")", "}"),
    fam("spread-call", 'L', "", "f(...", "a", ")", ""),
    fam("not-paren", 'L', "", "!(", "a", ")", ""),
    fam("typeof-bracket", 'L', "", "typeof [", "a", "]", ""),
    fam("mixed-bracket-paren-brace", 'L', "x=", "[({a:", "1", "})]", ""),
    fam("decorator-call-nest", 'L', "@", "d(", "1", ")", " class A{}"),
    fam("enum-init-paren", 'L', "enum E{A=", "(", "1", ")", "}"),
    fam("export-default-paren", 'L', "export default ", "(", "1", ")", ""),
    // ---- type nesting
    fam("type-generic", 'T', "let x:", "A<", "B", ">", ""),
    fam("type-generic-alias", 'T', "type X=", "A<", "B", ">", ""),
    fam("type-union", 'T', "type X=", "A|", "B", "", ""),
    fam("type-intersection", 'T', "type X=", "A&", "B", "", ""),
    fam("type-array", 'T', "type X=", "", "A", "[]", ""),
    fam("type-tuple", 'T', "type X=", "[", "A", "]", ""),
    fam("type-paren", 'T', "type X=", "(", "A", ")", ""),
    fam("type-function-param", 'T', "type X=", "(a:", "A", ")=>B", ""),
    fam("type-function-return", 'T', "type X=", "()=>", "A", "", ""),
    fam("type-function-paren-nofn", 'T', "type X=", "(a:", "A", ")", ""),
    fam("type-object", 'T', "type X=", "{a:", "A", "}", ""),
    fam("type-object-method", 'T', "type X=", "{m(a:", "A", "):B}", ""),
    fam("type-conditional-true", 'T', "type X=", "A extends B?", "C", ":D", ""),
    fam("type-conditional-false", 'T', "type X=", "A extends B?C:", "D", "", ""),
    fam("type-keyof", 'T', "type X=", "keyof ", "A", "", ""),
    fam("type-indexed", 'T', "type X=", "", "A", "[K]", ""),
    fam("type-template", 'T', "type X=", "`a${", "A", "}`", ""),
    fam("type-mapped", 'T', "type X=", "{[K in ", "A", "]:B}", ""),
    fam("type-constructor", 'T', "type X=", "new()=>", "A", "", ""),
    fam("type-as", 'T', "x as ", "A<", "B", ">", ""),
    fam("type-param-default", 'L', "function f", "<T=A<", "B", ">>", "(){}"),
    fam("interface-nest", 'T', "interface I{a:", "{a:", "A", "}", "}"),
    fam("type-return-annotation", 'T', "function f():", "A<", "B", ">", "{}"),
    // ---- long tokens / wide lists (size n, depth 1)
    fam("comment-block", 'L', "/*", "x", "", "", "*/1"),
    fam("comment-block-stars", 'L', "/*", "*", "", "", "*/1"),
    fam("comment-line", 'L', "//", "x", "", "", "\n1"),
    fam("comments-many", 'L', "", "/**/", "1", "", ""),
    fam("string-long", 'L', "x=\"", "a", "", "", "\""),
    fam("string-escapes", 'L', "x=\"", "\\n", "", "", "\""),
    fam("string-unicode-escapes", 'L', "x=\"", "\\u{41}", "", "", "\""),
    fam("string-hex-escapes", 'L', "x='", "\\x41", "", "", "'"),
    fam("string-line-continuations", 'L', "x='", "\\\n", "", "", "'"),
    fam("string-astral", 'L', "x='", "\u{1F600}", "", "", "'"),
    fam("template-long", 'L', "x=`", "a", "", "", "`"),
    fam("template-substitutions", 'L', "x=`", "${a}", "", "", "`"),
    fam("regex-long", 'L', "x=/", "a", "", "", "/"),
    fam("regex-class", 'L', "x=/[", "a", "", "", "]/"),
    fam("regex-groups", 'L', "x=/", "(", "a", ")", "/"),
    fam("regex-flags", 'L', "x=/a/", "g", "", "", ""),
    fam("number-digits", 'L', "x=1", "0", "", "", ""),
    fam("number-fraction", 'L', "x=0.", "1", "", "", ""),
    fam("number-separators", 'L', "x=1", "_0", "", "", ""),
    fam("bigint-digits", 'L', "x=1", "0", "", "", "n"),
    fam("hex-digits", 'L', "x=0x", "f", "", "", ""),
    fam("identifier-long", 'L', "", "a", "", "", ""),
    fam("identifier-escapes", 'L', "", "\\u0061", "", "", ""),
    fam("identifier-nonascii", 'L', "", "\u{e9}", "", "", ""),
    fam("newlines", 'L', "", "\n", "1", "", ""),
    fam("crlf", 'L', "", "\r\n", "1", "", ""),
    fam("line-separators", 'L', "", "\u{2028}", "1", "", ""),
    fam("semicolons", 'L', "", ";", "", "", ""),
    fam("statements", 'L', "", "a;", "", "", ""),
    fam("statements-asi", 'L', "", "a\n", "", "", ""),
    fam("calls", 'L', "", "f();", "", "", ""),
    fam("array-elements", 'L', "x=[", "1,", "", "", "]"),
    fam("array-holes", 'L', "x=[", ",", "", "", "]"),
    fam("array-strings", 'L', "x=[", "'a',", "", "", "]"),
    fam("object-properties", 'L', "x={", "a:1,", "", "", "}"),
    fam("call-arguments", 'L', "f(", "1,", "", "", ")"),
    fam("new-arguments", 'L', "new F(", "a,", "", "", ")"),
    fam("var-declarators", 'L', "var a=1", ",a=1", "", "", ""),
    fam("switch-cases", 'L', "switch(a){", "case 1:", "", "", "}"),
    fam("class-members", 'L', "class A{", "m(){}", "", "", "}"),
    fam("class-fields", 'L', "class A{", "a=1;", "", "", "}"),
    fam("import-specifiers", 'L', "import{", "a,", "", "", "}from'm'"),
    fam("export-specifiers", 'L', "export{", "a,", "", "", "}"),
    fam("string-concat", 'L', "x='a'", "+'a'", "", "", ""),
    fam("function-decls", 'L', "", "function f(){}", "", "", ""),
    fam("type-params", 'L', "function f<", "T,", "T", "", ">(){}"),
    fam("type-args", 'L', "f<", "T,", "T", "", ">()"),
    fam("tuple-elements", 'L', "type X=[", "A,", "", "", "]"),
    fam("interface-members", 'L', "interface I{", "a:A;", "", "", "}"),
    fam("array-pattern-elements", 'L', "let[", "a,", "", "", "]=x"),
    fam("sequence-in-paren", 'L', "(", "a,", "a", "", ")"),
    fam("template-chunks", 'L', "x=`", "a${1}", "", "", "`"),
    fam("if-else-if", 'L', "", "if(a){}else ", "if(a){}", "", ""),
    fam("closers-only-paren", 'L', "", ")", "", "", ""),
    fam("closers-only-brace", 'L', "", "}", "", "", ""),
    fam("openers-only-paren", 'L', "", "(", "", "", ""),
    fam("openers-only-bracket", 'L', "", "[", "", "", ""),
    fam("openers-only-brace", 'L', "", "{", "", "", ""),
    fam("openers-only-template", 'L', "", "`${", "", "", ""),
    fam("openers-only-generic", 'L', "let x:", "A<", "", "", ""),
    fam("openers-only-paren-assign", 'L', "", "(a=", "", "", ""),
    fam("openers-only-arrow", 'L', "", "(a)=>", "", "", ""),
];

/// Families rendered by code (distinct names per level).
const CUSTOM: &[&str] = &["labels-distinct", "params-distinct", "let-distinct", "enum-members", "object-distinct-props", "nested-functions-named", "class-extends-named"];

pub fn family_names() -> Vec<&'static str> {
    FAMILIES.iter().map(|f| f.name).chain(CUSTOM.iter().copied()).collect()
}

pub fn render_family(name: &str, n: usize) -> Option<String> {
    if let Some(f) = FAMILIES.iter().find(|f| f.name == name) {
        let mut s = String::with_capacity(f.pre.len() + f.post.len() + f.core.len() + n * (f.open.len() + f.close.len()));
        s.push_str(f.pre);
        for _ in 0..n {
            s.push_str(f.open);
        }
        s.push_str(f.core);
        for _ in 0..n {
            s.push_str(f.close);
        }
        s.push_str(f.post);
        return Some(s);
    }
    let mut s = String::new();
    match name {
        "labels-distinct" => {
            for i in 0..n {
                s.push_str(&format!("l{}:", i));
            }
            s.push(';');
        }
        "params-distinct" => {
            s.push_str("function f(");
            for i in 0..n {
                s.push_str(&format!("a{},", i));
            }
            s.push_str("z){}");
        }
        "let-distinct" => {
            for i in 0..n {
                s.push_str(&format!("let a{}={};", i, i));
            }
        }
        "enum-members" => {
            s.push_str("enum E{");
            for i in 0..n {
                s.push_str(&format!("A{},", i));
            }
            s.push('}');
        }
        "object-distinct-props" => {
            s.push_str("x={");
            for i in 0..n {
                s.push_str(&format!("a{}:{},", i, i));
            }
            s.push('}');
        }
        "nested-functions-named" => {
            for i in 0..n {
                s.push_str(&format!("function f{}(){{", i));
            }
            for _ in 0..n {
                s.push('}');
            }
        }
        "class-extends-named" => {
            for i in 0..n {
                s.push_str(&format!("class A{} extends A{}{{}}", i + 1, i));
            }
        }
        _ => return None,
    }
    Some(s)
}

/// Composite of wrappers: levels are (family index, repetitions); all of one context.
fn render_composite(levels: &[(usize, usize)], ctx: char) -> String {
    let (pre, core) = match ctx {
        'E' => ("x=", "1"),
        'T' => ("type X=", "A"),
        _ => ("", ";"),
    };
    let mut s = String::from(pre);
    for (fi, reps) in levels {
        let f = &FAMILIES[*fi % FAMILIES.len()];
        for _ in 0..*reps {
            s.push_str(f.open);
        }
    }
    s.push_str(core);
    for (fi, reps) in levels.iter().rev() {
        let f = &FAMILIES[*fi % FAMILIES.len()];
        for _ in 0..*reps {
            s.push_str(f.close);
        }
    }
    s
}

// ---------------------------------------------------------------------------------------------
// (2) vocabulary and template grammar
// ---------------------------------------------------------------------------------------------
const VOCAB: &[&str] = &[
    "a", "b", "x", "T", "K", "f", "1", "0", "'s'", "\"d\"", ";", ",", "(", ")", "{", "}", "[", "]", ".", "=", ":", "?", "=>", "<", ">", "+",
    "-", "*", "/", "%", "!", "~", "&", "|", "^", "&&", "||", "??", "?.", "...", "==", "!=", "===", "!==", "<=", ">=", "<<", ">>", ">>>", "**",
    "++", "--", "+=", "-=", "*=", "/=", "%=", "**=", "<<=", ">>=", ">>>=", "&=", "|=", "^=", "&&=", "||=", "??=", "@", "#", "`", "${", "`a${",
    "}b`", "}${", "`t`", "\\", "'", "\"", "/*", "*/", "//", "\n", "\r\n", "\u{2028}", "\u{2029}", "\u{feff}", "\u{a0}", "\t", "\u{b}", "\u{c}", "0x", "0xff", "0b1", "0o7", "08",
    "1e", "1e+", "1e3", ".5", "5.", "1_000", "1__0", "1n", "1.5n", "0n", "1e3n", "9007199254740993", "/a/g", "/[/]/", "/(?<n>a)\\k<n>/u", "/a/gg", "/=/", "/ /",
    "\\u0061", "\\u{61}", "\\u{110000}", "\\ud800", "'\\", "'\\u", "'\\x4", "'\\u{", "`\\u`", "é", "π", "𝒳", "\u{200d}", "$", "_", "#x", "#constructor",
    // keywords
    "if", "in", "do", "as", "of", "is", "let", "var", "for", "new", "try", "any", "true", "null", "else", "case", "this", "void", "enum", "type",
    "from", "false", "const", "while", "break", "class", "super", "throw", "await", "async", "yield", "infer", "never", "catch", "keyof",
    "return", "switch", "static", "import", "export", "typeof", "delete", "public", "module", "default", "finally", "extends", "declare",
    "private", "unknown", "asserts", "function", "continue", "debugger", "readonly", "accessor", "abstract", "protected", "namespace",
    "interface", "instanceof", "implements", "satisfies", "get", "set", "constructor", "undefined", "string", "number", "boolean", "object",
    "symbol", "bigint", "unique", "override", "global", "require", "with", "target", "meta", "arguments", "eval", "NaN", "Infinity",
    // fragments
    "function*", "async function", "()=>", "(a)=>", "a=>", "(a,b)=>", "(a=1)=>", "({a})=>", "([a])=>", "(...a)=>", "(a:T)=>", "():T=>", "<T>(", "<T,>(",
    "f<T>(", "a<b", "a<b>(c)", "a<b>c", "A<B<C>>", "A<B<C<D>>>", "x as T", "x as const", "<T>x", "x!", "x!.y", "x?.[0]", "x?.()", "new.target",
    "import.meta", "import(", "import type", "export type", "export default", "export *", "export =", "import x =", "class A{", "class A extends B{",
    "interface I{", "type X=", "enum E{", "const enum", "declare module", "declare global", "namespace A.B{", "abstract class", "static{",
    "get a(){", "set a(v){", "async *m(){", "*[Symbol.iterator](){", "[k:string]:T", "a?:T", "a!:T", "-readonly", "+?", "-?", "keyof typeof",
    "a is T", "asserts a is T", "unique symbol", "T[]", "T[K]", "[A,B]", "[a:A,b?:B]", "[...A]", "{[K in T]:V}", "{[K in keyof T as U]?:T[K]}",
    "T extends U?X:Y", "infer R", "`a${T}`", "(a:A)=>B", "new()=>T", "@d", "@d()", "@a.b", "label:", "case 1:", "default:", "else if", "for(;;)",
    "for(const a of b)", "for(a in b)", "for await(", "do{", "}while(", "try{", "}catch(e){", "}catch{", "}finally{", "switch(a){", "return;",
    "break a;", "continue a;", "throw a;", "yield*", "await a", "let[", "let{", "const{a,b:[c]}=", "[a,b]=[b,a]", "{a,b}", "{a:1,...b}", "{[a]:1}",
    "{get a(){return 1}}", "{async*a(){}}", "{a(){}}", "a?b:c", "a??b", "a||=b", "a**b", "-a**b", "(-a)**b", "a?.b", "a?.5:1", "a--\n-b", "a\n++b",
    "a\n(b)", "a\n[b]", "a\n`b`", "return\na", "x\n/a/g", "x/a/g", "++/a/", "a++/b", ")/a/", "}/a/", "]/a/", "<!--", "-->", "#!", "\u{0}", "\u{7f}", "\u{fffd}",
];

const T_EXPR: &[&str] = &[
    "$I", "1", "'s'", "$E+$E", "($E)", "$E.$I", "$E($E)", "[$E,$E]", "{$I:$E}", "$I=$E", "$E?$E:$E", "$I=>$E", "($P)=>$E", "($P,$P)=>{$S}",
    "$E[$E]", "$E*$E", "$E?.$I", "new $I($E)", "`a${$E}b`", "$I`x${$E}`", "/a+/g", "$E/$E", "$E / $E /$E", "<$T>$E", "$E as $T", "$E!",
    "typeof $E", "await $E", "yield $E", "function($P){$S}", "async function*($P){$S}", "class{$M}", "class extends $E{$M}", "$I<$T>($E)",
    "$E<$E", "$E>$E", "$E>>$E", "$I+=$E", "[$E,...$E]", "{...$E}", "($E,$E)", "$E satisfies $T", "$E instanceof $E", "$E in $E", "++$I",
    "$I--", "!$E", "-$E", "void $E", "delete $E.$I", "this", "super.$I", "null", "1n", "0x1f", "1e3", ".5", "$E**$E", "$E??$E", "$E&&$E",
    "$E||=$E", "import($E)", "({$I=$E})=>$E", "([$I=$E])=>$E", "($I=$E)", "async($P)=>$E", "async $I=>$E", "($I:$T):$T=>$E", "<$I>($I:$I)=>$E",
    "($I?:$T)=>$E", "function $I<$I extends $T>($I:$T):$T{$S}", "@$I class{}", "`${$E}${$E}`", "$E,$E", "{$I,$I}", "{[$E]:$E}", "{$I($P){$S}}",
    "{get $I(){$S}}", "{async*$I(){$S}}", "$E?.[$E]", "$E?.($E)", "new $E", "new.target", "import.meta", "$E<$T>$E", "$I<$T,$T>($E)", "x=$E",
    "($E)=>$E", "($E):$T", "($I,$E)", "[$E]=$E", "{$I:$P}=$E",
];
const T_STMT: &[&str] = &[
    "$E;", ";", "let $P=$E;", "const $I:$T=$E;", "var $I;", "if($E){$S}", "if($E)$S else $S", "$S $S", "{$S $S}", "return $E;",
    "for(let $I=0;$E;$E){$S}", "for(const $P of $E){$S}", "for($I in $E)$S", "while($E){$S}", "do{$S}while($E);",
    "switch($E){case $E:$S break;default:$S}", "try{$S}catch($I){$S}finally{$S}", "try{$S}catch{$S}", "throw $E;", "break;", "continue $I;",
    "$I:$S", "function $I($P){$S}", "function*$I(){$S}", "async function $I(){$S}", "class $I{$M}",
    "class $I<$I> extends $I<$T> implements $I{$M}", "abstract class $I{abstract $I():$T;}", "interface $I{$I:$T;$I?($I:$T):$T}",
    "interface $I<$I> extends $I{[$I:string]:$T}", "type $I=$T;", "type $I<$I>=$T;", "enum $I{$I,$I=$E}", "const enum $I{$I=1}",
    "declare const $I:$T;", "declare function $I($I:$T):$T;", "declare module 'm'{$S}", "namespace $I{export $S}", "namespace $I.$I{$S}",
    "import $I from 'm';", "import {$I as $I} from 'm';", "import * as $I from 'm';", "import type {$I} from 'm';", "export default $E;",
    "export {$I};", "export const $I=$E;", "export * from 'm';", "export type {$I};", "@$I class $I{}", "@$I($E) class $I{@$I $I=$E;}",
    "debugger;", "$S\n$S", "let $I\n$E", "$I\n++\n$I", "// c\n$S", "/* c */$S", "for await(const $I of $E){$S}", "for(;;){$S}", "for(var $I=$E in $E);",
    "if($E)function $I(){}", "label:for(;;){break label;}", "export function $I($P):$T{$S}", "export class $I{$M}", "export default class{$M}",
    "export default function($P){$S}", "export enum $I{$I}", "export namespace $I{$S}", "export interface $I{}", "export abstract class $I{}",
    "declare global{$S}", "declare class $I{$M}", "declare enum $I{$I}", "declare namespace $I{$S}", "declare let $I:$T,$I:$T;",
    "function $I($I:$T):$T;function $I($P){$S}", "let $I:$T;", "let $I!:$T;", "using $I=$E;",
];
const T_MEMBER: &[&str] = &[
    "$I=$E;", "$I($P){$S}", "static $I=$E;", "get $I(){$S}", "set $I($I){$S}", "constructor(private $I:$T){$S}", "static{$S}", "#$I=$E;",
    "async *$I(){$S}", "[$E]($P){$S}", "public readonly $I:$T;", "$I?:$T;", "$I!:$T;", "declare $I:$T;", "accessor $I=$E;", "$M $M", "@$I $I(){}",
    "override $I(){}", "abstract $I():$T;", "[$I:string]:$T;", "$I<$I>($I:$I):$I{$S}", "static async $I(){$S}", "private static readonly $I=$E;",
    "static #$I(){$S}", "get #$I(){$S}", "'s'(){}", "1(){}", "*$I(){$S}", "constructor(){super($E);}", ";",
];
const T_TYPE: &[&str] = &[
    "$I", "string", "number", "any", "$T[]", "[$T,$T]", "$T|$T", "$T&$T", "($T)", "($I:$T)=>$T", "{$I:$T}", "{$I?:$T;$I($I:$T):$T}", "$I<$T>",
    "$I<$T,$T>", "$I<$I<$T>>", "keyof $T", "typeof $I", "$T[$T]", "$T extends $T?$T:$T", "infer $I", "{[$I in $T]:$T}",
    "{readonly [$I in keyof $T]?:$T[$I]}", "`a${$T}`", "'lit'", "1", "true", "null", "undefined", "readonly $T[]", "[...$T]", "[$I:$T,$I?:$T]",
    "new()=>$T", "$I is $T", "asserts $I", "unique symbol", "this", "$I.$I", "import('m').$I", "<$I>($I:$I)=>$I", "abstract new()=>$T", "-1",
    "unknown", "never", "void", "bigint", "object", "symbol", "|$T|$T", "$I<$I<$I<$T>>>", "(...$I:$T[])=>$T", "{[$I:string]:$T}", "{-readonly [$I in $T]-?:$T}",
    "typeof $I.$I", "$I<typeof $I>", "($I?:$T,...$I:$T)=>void", "{new($I:$T):$T}", "{($I:$T):$T}", "$T extends ($I:infer $I)=>infer $I?$I:never",
];
const T_PAT: &[&str] = &[
    "$I", "$I=$E", "[$P,$P]", "{$I}", "{$I:$P}", "{$I=$E}", "...$I", "[,$P]", "{...$I}", "$I:$T", "$I?:$T", "{$I}:{$I:$T}", "[$P=$E]", "", "{$I:[$P]}",
    "[...[$P]]", "{[$E]:$P}", "$I:$T=$E", "this:$T", "@$I $I", "public $I", "private readonly $I:$T",
];
const T_IDENT: &[&str] = &[
    "a", "b", "c", "x", "y", "foo", "T", "K", "of", "as", "type", "from", "async", "get", "set", "static", "let", "yield", "await", "é",
    "\\u0061", "$", "_", "constructor", "undefined", "arguments", "eval", "namespace", "module", "declare", "abstract", "is", "keyof", "infer",
    "readonly", "any", "unknown", "never", "accessor", "satisfies", "global", "this", "class", "new", "in", "𝒳", "a1", "__proto__", "prototype",
];

fn vocab(tape: &mut Tape) -> &'static str {
    VOCAB[tape.below(VOCAB.len()).min(VOCAB.len() - 1)]
}

fn expand(tpl: &str, tape: &mut Tape, depth: u32, out: &mut String, budget: &mut i64) {
    let b = tpl.as_bytes();
    let mut i = 0;
    while i < b.len() {
        if b[i] == b'$' && i + 1 < b.len() && matches!(b[i + 1], b'E' | b'S' | b'T' | b'P' | b'I' | b'M') {
            let class = b[i + 1];
            i += 2;
            // glitch: replace the hole by a random vocabulary token, or drop it
            if tape.chance(1, 40) {
                match tape.below(3) {
                    0 => {}
                    1 => out.push_str(vocab(tape)),
                    _ => {
                        out.push_str(vocab(tape));
                        out.push(' ');
                        out.push_str(vocab(tape));
                    }
                }
                continue;
            }
            let pool: &[&str] = match class {
                b'E' => T_EXPR,
                b'S' => T_STMT,
                b'T' => T_TYPE,
                b'P' => T_PAT,
                b'M' => T_MEMBER,
                _ => T_IDENT,
            };
            *budget -= 1;
            let terminal = depth >= 7 || *budget <= 0;
            let k = if class == b'I' {
                tape.below(pool.len())
            } else if terminal {
                tape.below(3.min(pool.len()))
            } else {
                tape.below(pool.len())
            };
            let t = pool[k.min(pool.len() - 1)];
            if class == b'I' {
                out.push_str(t);
            } else if terminal && t.contains('$') && depth >= 9 {
                out.push_str(match class {
                    b'E' => "1",
                    b'S' => ";",
                    b'T' => "A",
                    b'M' => ";",
                    _ => "a",
                });
            } else {
                expand(t, tape, depth + 1, out, budget);
            }
        } else {
            // copy one UTF-8 char
            let ch_len = match b[i] {
                x if x < 0x80 => 1,
                x if x >= 0xf0 => 4,
                x if x >= 0xe0 => 3,
                _ => 2,
            };
            out.push_str(&tpl[i..(i + ch_len).min(tpl.len())]);
            i += ch_len;
        }
    }
}

// ---------------------------------------------------------------------------------------------
// (3) corpus of valid programs and token-level mutation
// ---------------------------------------------------------------------------------------------
pub const CORPUS: &[&str] = &[
    "let a = 1;\nconst b: number = a + 2 * 3;\nvar c = (a - b) / 4 % 5;\nconsole.log(a, b, c);\n",
    "function add(x: number, y: number = 2): number {\n  return x + y;\n}\nconst r = add(1) + add(2, 3);\n",
    "const f = (a, b) => a * b;\nconst g = x => { return x + 1; };\nconst h = async (v: string): Promise<string> => v;\n[1, 2, 3].map(n => n * 2).filter((n) => n > 2);\n",
    "class Point {\n  x: number;\n  private y = 0;\n  static origin = new Point(0, 0);\n  constructor(x: number, y: number) { this.x = x; this.y = y; }\n  get len(): number { return Math.sqrt(this.x * this.x + this.y * this.y); }\n  set len(v) { this.x = v; }\n  static of(x: number) { return new Point(x, x); }\n  #secret = 1;\n  peek() { return this.#secret; }\n}\nclass P3 extends Point {\n  constructor(public z: number) { super(z, z); }\n  toString() { return `${this.x},${this.z}`; }\n}\n",
    "interface Shape { area(): number; name?: string; readonly id: number; [key: string]: any }\ntype Pair<A, B = A> = [A, B];\ntype Fn = (a: number, ...rest: string[]) => void;\ntype U = 'a' | 'b' | 1 | null;\ntype M<T> = { [K in keyof T]?: T[K] };\ntype C<T> = T extends (infer U)[] ? U : never;\nlet p: Pair<number> = [1, 2];\n",
    "enum Color { Red, Green = 5, Blue }\nconst enum E { A = 1, B = A * 2 }\nenum S { X = 'x', Y = 'y' }\nlet c: Color = Color.Green;\nconsole.log(Color[5], S.X);\n",
    "namespace Geo {\n  export const PI = 3.14;\n  export function area(r: number) { return PI * r * r; }\n  export namespace Inner { export let v = 1; }\n}\nconsole.log(Geo.area(2), Geo.Inner.v);\n",
    "const o = { a: 1, 'b': 2, [`c${1}`]: 3, d() { return 4; }, get e() { return 5; }, ...{ f: 6 } };\nconst { a, b: bb, ...rest } = o;\nconst [x, , y = 2, ...zs] = [1, 2, undefined, 4, 5];\nlet { p: { q = 1 } = {} } = {} as any;\n",
    "for (let i = 0; i < 3; i++) { if (i % 2) continue; else console.log(i); }\nfor (const k in { a: 1 }) console.log(k);\nfor (const v of [1, 2]) { console.log(v); }\nlet n = 0;\nwhile (n < 3) n++;\ndo { n--; } while (n > 0);\nouter: for (;;) { for (;;) { break outer; } }\n",
    "function classify(v: unknown): string {\n  switch (typeof v) {\n    case 'number': return 'n';\n    case 'string': { return 's'; }\n    default: return 'o';\n  }\n}\ntry { throw new Error('x'); } catch (e) { console.log((e as Error).message); } finally { console.log('f'); }\ntry { JSON.parse('{'); } catch { }\n",
    "function* gen(n: number) { for (let i = 0; i < n; i++) yield i; yield* [7, 8]; return 9; }\nasync function main() { const r = await Promise.all([1, 2].map(async x => x * 2)); for (const v of gen(2)) console.log(v, r); }\nmain();\n",
    "const s = `a${1 + 1}b${`inner${2}`}c`;\nconst t = String.raw`x\\n${s}`;\nconst re = /ab+c/gi, re2 = /[/\\]]+/u;\nconst d = 10 / 2 / 5;\nconst q = s.length > 2 ? s : t;\nconst z = s?.length ?? 0;\nlet w = q || z && !d;\nw ||= 1; w &&= 2; w ??= 3;\n",
    "import { a, b as c } from './mod';\nimport def from './def';\nimport * as ns from './ns';\nimport type { T } from './types';\nexport const v = a + c;\nexport default function () { return def; }\nexport { ns };\nexport * from './other';\nexport type { T };\n",
    "function id<T>(x: T): T { return x; }\nconst n = id<number>(1);\nconst m = id<Array<Map<string, number[]>>>([]);\nclass Box<T extends object = {}> { constructor(public v: T) {} map<U>(f: (t: T) => U): Box<U & object> { return new Box(f(this.v) as any); } }\nlet big = 1 < 2, sh = 8 >> 1 >>> 1;\n",
    "abstract class A { abstract f(): void; protected g() {} }\nclass B extends A implements I { f() {} static { B.count = 0; } static count: number; readonly y = 1; z: string; }\ninterface I { f(): void }\ndeclare const G: number;\ndeclare function ext(a: string): void;\ndeclare module 'm' { export const q: number; }\n",
    "function dec(t: any) { return t; }\nfunction decf(n: number) { return (t: any, k?: any) => t; }\n@dec\nclass D {\n  @decf(1) m() {}\n  @dec static s = 1;\n}\n",
    "let v: any = <any>1;\nlet u = (v as unknown) as string;\nlet nn = v!;\nlet k = v!.a?.b?.[0]?.(1);\nlet tup: [number, string] = [1, 'a'];\nlet fnv: { f(x: number): string; g?: () => object };\nlet big = 123n + 0x10n;\nlet nums = [0b11, 0o17, 0xff, 1e3, 1_000, .5, 5., 1.5e-3];\n",
    "const a = 1\nconst b = 2\nlet c = a\n+ b\nlet d = c\n;[1, 2].forEach(x => x)\nlet e = d\n++c\nfunction r() {\n  return\n  1\n}\n",
    "var x = 1; { let x = 2; { const x = 3; } }\nif (x) function ff() {}\nvar fe = function named() { return named; };\nnew (class { })();\nnew Date;\nnew ns.C(1).m();\nvoid 0, typeof x, delete (x as any).p;\nx++; --x; x = -x ** 2 || +x;\nx = x ? x ? 1 : 2 : 3;\n",
    "const wm = new Map<string, number>([['a', 1]]);\nfor (const [k, v] of wm) console.log(k, v);\nconst st = new Set([1, 2, 3]);\nconst arr = [...st, ...[4, 5]];\nconst objs = arr.map((v, i) => ({ v, i }));\nconst sum = arr.reduce((a, b) => a + b, 0);\nconsole.log(JSON.stringify({ objs, sum }));\n",
    "// line comment\n/* block\n comment */\n/** doc */\nlet a = 1; // trailing\nlet b = /* inline */ 2;\nlet s = 'it\\'s', t = \"q\\\"q\", u = 'a\\\nb', w = '\\u0041\\x41\\u{1F600}\\0';\nlet $ = 2, _ = 3, a$b_1 = 4;\n",
    "async function* ag() { yield 1; }\n(async () => { for await (const v of ag()) console.log(v); })();\nconst o = { async m() { await 1; }, *g() { yield 1; }, async *ag() {}, get [Symbol.iterator]() { return 1; } };\nclass K { async m() {} *g() {} static async *s() {} get a() { return 1; } set a(v) {} 'str'() {} 1() {} [`c`]() {} }\n",
    "type Deep = { a: { b: { c: Array<Array<Array<number>>> } } };\ntype F2 = (cb: (err: Error | null, data?: { rows: string[][] }) => void) => Promise<void>;\ntype G3 = keyof typeof globalThis;\ntype Tpl = `on${Capitalize<string>}`;\ntype Cond<T> = T extends string ? 's' : T extends number ? 'n' : never;\nfunction isStr(x: any): x is string { return typeof x === 'string'; }\nfunction assertIt(x: any): asserts x is number {}\n",
    "let i = 0, j = 10;\nwhile (i < j) { i += 2; j -= 1; if (i === 4) break; }\nconst bits = (i & 3) | (j ^ 5) << 2 >>> 1 >> 1;\nconst cmp = i <= j && j >= i || i != j && i !== j || i == j;\nconst inn = 'a' in { a: 1 }, io = [] instanceof Array;\ni **= 2; i %= 3; i <<= 1; i >>= 1; i >>>= 0; i &= 1; i |= 2; i ^= 3;\n",
    "function outer() {\n  let count = 0;\n  function inner() { return () => () => ++count; }\n  return inner()()();\n}\nconst curry = (a: number) => (b: number) => (c: number) => a + b + c;\nconst v = curry(1)(2)(3) + outer();\n(function iife() { })();\n(() => { })();\n!function () { }();\n",
    "export interface Opts { a?: number }\nexport type Id = string | number;\nexport enum Mode { On, Off }\nabstract class Base<T> { abstract run(o: Opts): T }\nexport { Base };\nexport namespace NS { export const z = 1 }\nexport async function go(): Promise<void> {}\nexport default class extends Base { run() { return 1; } }\ndeclare const dd: number;\n",
    "label: { break label; }\nif (1) ; else ;\nfor (var q = 0, w = 1; q < w; q++, w--) ;\nfor (let [a, b] of [[1, 2]]) ;\nfor (const { x, y = 2 } of [{ x: 1 }]) ;\nswitch (1) { }\nswitch (2) { default: }\n;;;\n{}\n",
    "const tag = (s: TemplateStringsArray, ...v: any[]) => s.raw.join('|') + v.join(',');\nconst out = tag`a${1}b${2}c`;\nconst nested = `${`${`${1}`}`}`;\nconst multi = `line1\nline2 ${ { a: 1 }.a } \\${notsub} \\``;\nconst obj = { [`k${1}`]: `v` };\n",
    "class Acc { private _v = 0; get v() { return this._v; } set v(n: number) { this._v = n; } static #p = 1; static get p() { return Acc.#p; } accessor z = 1; }\nconst o2 = { get a() { return 1; }, set a(v) { }, get: 1, set: 2, async: 3, static: 4, of: 5, type: 6 };\nlet get = 1, set = 2, of = 3, type = 4, from = 6, as = 7;\nget = get + set + of + from + as;\n",
    "let a: number[] = [], b: Array<number> = [], c: ReadonlyArray<string> = [], d: [number, string] = [1, 'a'];\nlet f: (a: number) => (b: string) => void;\nlet g: new (a: number) => object;\nlet h: typeof a, i: keyof typeof d;\nlet k: { a: 1 } & { b: 2 } | null | undefined;\nfunction over(a: any) { return a; }\n",
    "const cfg = {\n  name: 'x', nested: { list: [1, 2, { deep: [[], [[]], {}] }], fn() { return [() => ({})]; } },\n  'quoted-key': true, 42: 'num', [1 + 1]: 'computed',\n};\nconst val = cfg.nested.list[2]['deep'][1][0];\nconst opt = cfg?.nested?.['list']?.[0];\nconst call = cfg.nested.fn()[0]();\n",
    "if (a < b && c > d) { x = a < b ? c > d : e; }\nconst lt = a<b, gt = a>b, sh = a>>b, gen = f<T>(x), cmp2 = a < (b > c);\nconst cast = <T>x;\nlet m: Map<string, Array<Set<number>>> = new Map<string, Array<Set<number>>>();\nconst r = a / b / c, re = /=/.test('='), re2 = a++ / 2, re3 = (a) / 2;\n",
];

/// Independent, deliberately simple tokenizer (words, numbers, quoted strings without escapes
/// awareness beyond backslash, single punctuation characters, whitespace runs).
pub fn simple_tokens(src: &str) -> Vec<&str> {
    let mut out = Vec::new();
    let b = src.as_bytes();
    let mut i = 0;
    while i < b.len() {
        let start = i;
        let c = b[i];
        if c.is_ascii_alphanumeric() || c == b'_' || c == b'$' || c >= 0x80 {
            while i < b.len() && (b[i].is_ascii_alphanumeric() || b[i] == b'_' || b[i] == b'$' || b[i] >= 0x80) {
                i += 1;
            }
        } else if c == b' ' || c == b'\n' || c == b'\t' || c == b'\r' {
            while i < b.len() && (b[i] == b' ' || b[i] == b'\n' || b[i] == b'\t' || b[i] == b'\r') {
                i += 1;
            }
        } else if c == b'\'' || c == b'"' {
            i += 1;
            while i < b.len() && b[i] != c && b[i] != b'\n' {
                if b[i] == b'\\' {
                    i += 1;
                }
                i += 1;
            }
            i = (i + 1).min(b.len());
        } else {
            i += 1;
        }
        while i < b.len() && !src.is_char_boundary(i) {
            i += 1;
        }
        out.push(&src[start..i]);
    }
    out
}

fn is_ws(t: &str) -> bool {
    t.bytes().all(|b| b == b' ' || b == b'\n' || b == b'\t' || b == b'\r')
}

/// indices of the non-whitespace tokens
fn solid(tokens: &[&str]) -> Vec<usize> {
    tokens.iter().enumerate().filter(|(_, t)| !is_ws(t)).map(|(i, _)| i).collect()
}

fn corpus_variant(prog: usize, op: &str, k: usize) -> Option<String> {
    let src = CORPUS.get(prog)?;
    let toks = simple_tokens(src);
    let sol = solid(&toks);
    let at = *sol.get(k)?;
    let mut s = String::new();
    match op {
        "prefix" => {
            for t in &toks[..=at] {
                s.push_str(t);
            }
        }
        "delete" => {
            for (i, t) in toks.iter().enumerate() {
                if i != at {
                    s.push_str(t);
                }
            }
        }
        "dup" => {
            for (i, t) in toks.iter().enumerate() {
                s.push_str(t);
                if i == at {
                    s.push(' ');
                    s.push_str(t);
                }
            }
        }
        _ => return None,
    }
    Some(s)
}

// ---------------------------------------------------------------------------------------------
// (1) bytes / unicode pools
// ---------------------------------------------------------------------------------------------
const HOT_BYTES: &[u8] = b"'\"`\\/*${}()[]<>=!?:;,.+-&|^%~@#\n\r\t 01789exXnbBoOuU_aZ";
const UNI_POOL: &[char] = &[
    '\u{2028}', '\u{2029}', '\u{feff}', '\u{a0}', '\u{1680}', '\u{2003}', '\u{3000}', '\u{200c}', '\u{200d}', '\u{200b}', '\u{85}', '\u{b}', '\u{c}',
    '\u{0}', '\u{1}', '\u{7f}', '\u{80}', '\u{ff}', '\u{e9}', '\u{3c0}', '\u{4e2d}', '\u{1d4b3}', '\u{1f600}', '\u{301}', '\u{fffd}', '\u{ffff}', '\u{10ffff}', '\u{d7ff}', '\u{e000}',
    '\u{2160}', '\u{ff10}', '\u{660}', '\u{1885}', '\u{b7}', '\u{212a}', '\u{130}', '\u{df}', '\u{ab}', '\u{2018}', '\u{201c}', '\u{ff08}', '\u{37e}',
];

// ---------------------------------------------------------------------------------------------
// property
// ---------------------------------------------------------------------------------------------
const SWEEP_HI: usize = 320;

fn series_ns(tier: Tier) -> Vec<u64> {
    let top = tier.pick(1024u64, 4096u64);
    let mut v = vec![];
    let mut n = 8;
    while n <= top {
        v.push(n);
        n *= 2;
    }
    v
}

fn deep_ns(tier: Tier) -> Vec<u64> {
    match tier {
        Tier::Quick => vec![2048, 4096, 8192, 20_000],
        Tier::Thorough => vec![2048, 4096, 8192, 20_000, 50_000, 100_000],
    }
}

/// Recorded safe depths for families excluded by an open finding's gate `C05-nest-<family>-depth`.
/// (empty: no nesting family is gated on this tree)
const GATED_SAFE_DEPTH: &[(&str, usize)] = &[];

fn gate_cap(ctx: &Ctx, family: &str) -> Option<usize> {
    GATED_SAFE_DEPTH.iter().find(|(f, _)| *f == family).and_then(|(f, d)| {
        if ctx.gates.excluded(&format!("C05-nest-{}-depth", f)) {
            Some(*d)
        } else {
            None
        }
    })
}

fn ratio_bucket(w: u64, len: usize) -> &'static str {
    let l = len.max(1) as u64;
    let r = w / l;
    match r {
        0 => "work/len:<1",
        1 => "work/len:1-2",
        2..=3 => "work/len:2-4",
        4..=7 => "work/len:4-8",
        8..=15 => "work/len:8-16",
        16..=63 => "work/len:16-64",
        _ => "work/len:>=64",
    }
}

fn outcome_tag(p: &Probe) -> String {
    let first = p.outcomes.first().map(|s| s.as_str()).unwrap_or("");
    let o = first.split_once('=').map(|x| x.1).unwrap_or("");
    if o == "ok" {
        "outcome:accepted".into()
    } else if o.starts_with("compile-err") {
        format!("outcome:{}", o)
    } else if o.starts_with("err") {
        format!("outcome:rejected:{}", o.trim_start_matches("err:"))
    } else {
        format!("outcome:{}", o)
    }
}

fn exec_text(src: &str, routes: u8, dom: &str, min_nontrivial: bool) -> Exec {
    let p = probe_text(src, routes);
    let observed = json!({"len": src.len(), "parser_work": p.w, "work_bound": work_bound(src.len()), "outcomes": p.outcomes});
    let mut tags = vec![format!("domain:{}", dom), outcome_tag(&p), ratio_bucket(p.w_max, src.len()).to_string()];
    // routes must agree on accept/reject of the text itself (information only)
    let acc: Vec<bool> = p.outcomes.iter().map(|o| o.contains("=ok") || o.contains("=compile-err")).collect();
    if acc.iter().any(|a| *a) && acc.iter().any(|a| !*a) {
        tags.push("routes-disagree-on-syntax".into());
    }
    let mut ex = match &p.fail {
        Some((sig, msg)) => Exec::fail(sig.clone(), msg.clone()),
        None => Exec::pass(min_nontrivial && p.w >= 3),
    };
    ex.tags = tags;
    ex.observed = observed;
    ex
}

impl Property for C05Prop {
    fn id(&self) -> &'static str {
        "C05"
    }
    fn rule(&self) -> String {
        format!(
            "Every case is one source text run through Parser::parse_program+Compiler::compile_program (always) and through Interpreter::prepare as script, as module and provide_module (1 generated text in 4, every 16th sweep size, all deep/boundary/pinned cases) on the worker's case thread with a fixed 8 MiB stack, H2 work limit armed at 64+40*len+4*len^2. Generated (tape): (a) bytes -> lossy UTF-8 (uniform / JS-hot bytes) and valid UTF-8 over a pool with all line terminators, BOM, zero-width and astral characters; (b) token soup over {} vocabulary items and a template grammar (expr/stmt/member/type/pattern) with injected glitches; (c) 1-3 token mutations (delete/dup/replace/insert/swap/truncate) of {} embedded valid programs; (d) random composites of nesting wrappers (cycles of 1-3 wrappers repeated up to 40 times). Enumerated: every token prefix, single-token deletion and duplication of the corpus; every family (n) for n=0..={} ({} families); per family the doubling series n=8..{} (thorough 4096) with ratio w(2n)/w(n)<={}, the acceptance boundary (largest accepted n, then n-1,n,n+1 through all routes) and deep probes n in {:?} (thorough up to 100000), one case each. Non-trivial: parser work counter >= 3 (>= 3 tokens), for family cases n >= 64. Distinct = distinct case JSON (text bytes, or family+n).",
            VOCAB.len(),
            CORPUS.len(),
            SWEEP_HI,
            family_names().len(),
            1024,
            MAX_RATIO,
            deep_ns(Tier::Quick)
        )
    }
    fn assumptions(&self) -> Vec<String> {
        vec![
            "H2 hook counts lexer tokens produced + parser advances (re-scans after checkpoint restores included); byte-level work inside one token is not counted".into(),
            "a native stack overflow / abort kills the worker process and is attributed to the journaled case by the supervisor; the case thread has a fixed 8 MiB stack".into(),
            "harness profile has overflow-checks and debug-assertions on: arithmetic overflow in the compiler is observed as a panic".into(),
        ]
    }
    fn plan(&self, tier: Tier) -> Plan {
        Plan { shards: 16, cases_per_shard: tier.pick(120_000, 1_500_000), tape_len: 400, watchdog_s: tier.pick(900, 7200) }
    }
    fn exhaustive_part(&self, _tier: Tier) -> Option<String> {
        Some(format!(
            "every token prefix / single-token deletion / single-token duplication of the {} corpus programs; every family at every n in 0..={}",
            CORPUS.len(),
            SWEEP_HI
        ))
    }
    fn fixed_cases(&self, ctx: &Ctx) -> Vec<Value> {
        let mut all: Vec<Value> = Vec::new();
        let names = family_names();
        // deep probes first (one case = one (family, n): a dead worker is attributed exactly)
        for n in deep_ns(ctx.tier) {
            for f in &names {
                all.push(json!({"kind": "nest", "family": f, "n": n}));
            }
        }
        for f in &names {
            all.push(json!({"kind": "series", "family": f, "ns": series_ns(ctx.tier)}));
        }
        for f in &names {
            all.push(json!({"kind": "boundary", "family": f, "max": ctx.tier.pick(20_000, 100_000)}));
        }
        for f in &names {
            all.push(json!({"kind": "sweep", "family": f, "lo": 0, "hi": SWEEP_HI}));
        }
        for prog in 0..CORPUS.len() {
            for op in ["prefix", "delete", "dup"] {
                all.push(json!({"kind": "corpus-enum", "prog": prog, "op": op}));
            }
        }
        all.into_iter().enumerate().filter(|(i, _)| i % ctx.nshards == ctx.shard).map(|(_, c)| c).collect()
    }
    fn generate(&self, tape: &mut Tape, ctx: &Ctx) -> Value {
        // every text goes through parse+compile; 1 in 4 additionally through the three
        // Interpreter routes (a fresh Interpreter costs ~2 ms each)
        let routes: u8 = if tape.chance(1, 4) { 0b1111 } else { 0b0001 };
        let dom = tape.weighted(&[3, 3, 2, 2, 2, 1]);
        let mut case = self.generate_text(dom, tape, ctx);
        case["routes"] = json!(routes);
        case
    }
    fn execute(&self, case: &Value, ctx: &mut Ctx) -> Exec {
        match case["kind"].as_str().unwrap_or("") {
            "text" => {
                let src = case["src"].as_str().unwrap_or("");
                let dom = case["dom"].as_str().unwrap_or("text").to_string();
                let routes = case["routes"].as_u64().map(|r| (r as u8) & 0b1111).filter(|r| *r != 0).unwrap_or(0b1111);
                let mut ex = exec_text(src, routes, &dom, true);
                if routes == 0b1111 {
                    ex.tags.push("routes:all-four".into());
                }
                if let Some(n) = case["excluded"].as_u64() {
                    if n > 0 {
                        ex = ex.count("excluded:C05-nest-depth", n);
                    }
                }
                if let Some(ops) = case["ops"].as_array() {
                    for o in ops {
                        ex.tags.push(format!("mutation:{}", o.as_str().unwrap_or("")));
                    }
                }
                ex
            }
            "nest" => {
                let fam = case["family"].as_str().unwrap_or("");
                let mut n = case["n"].as_u64().unwrap_or(0) as usize;
                let mut excluded = 0;
                if let Some(cap) = gate_cap(ctx, fam) {
                    if n > cap && !ctx.replay {
                        n = cap;
                        excluded = 1;
                    }
                }
                let Some(src) = render_family(fam, n) else {
                    return Exec::discard("unknown family");
                };
                let mut ex = exec_text(&src, 0b1111, "family", n >= 64);
                ex.tags.push(format!("family-depth:{}", if n >= 2048 { "deep" } else { "shallow" }));
                if let Verdict2::Fail = verdict_of(&ex) {
                    ex.signature = format!("{} [family {}]", ex.signature, fam);
                }
                if excluded > 0 {
                    ex = ex.count(&format!("excluded:C05-nest-{}-depth", fam), 1);
                }
                ex
            }
            "sweep" => {
                let fam = case["family"].as_str().unwrap_or("");
                let lo = case["lo"].as_u64().unwrap_or(0) as usize;
                let hi = case["hi"].as_u64().unwrap_or(0) as usize;
                let mut evals = 0u64;
                let mut nontrivial = 0u64;
                let mut first: Option<(usize, Exec)> = None;
                let mut nfail = 0u64;
                for n in lo..=hi {
                    let Some(src) = render_family(fam, n) else {
                        return Exec::discard("unknown family");
                    };
                    let e = exec_text(&src, if n % 16 == 0 { 0b1111 } else { 0b0001 }, "family", n >= 64);
                    evals += 1;
                    if e.is_fail() {
                        nfail += 1;
                        if first.is_none() {
                            first = Some((n, e));
                        }
                        // larger sizes of a failing family only repeat the failure (and a runaway
                        // parse costs its whole work bound each time)
                        break;
                    } else {
                        nontrivial += e.nontrivial;
                    }
                }
                let mut ex = match first {
                    Some((n, e)) => {
                        let mut f = Exec::fail(
                            format!("{} [family {}]", e.signature, fam),
                            format!("family {} first fails at n={} ({} of {} sizes fail): {}", fam, n, nfail, evals, match &e.verdict {
                                crate::core::Verdict::Fail(m) => m.clone(),
                                _ => String::new(),
                            }),
                        );
                        f.repro = Some(json!({"kind": "nest", "family": fam, "n": n}));
                        f.observed = e.observed;
                        f
                    }
                    None => Exec::pass(true),
                };
                ex.evals = evals.max(1);
                ex.nontrivial = nontrivial;
                ex.counters.push(("sweep_cases".into(), evals));
                ex
            }
            "series" => {
                let fam = case["family"].as_str().unwrap_or("");
                let ns: Vec<usize> = case["ns"].as_array().map(|a| a.iter().filter_map(|v| v.as_u64()).map(|v| v as usize).collect()).unwrap_or_default();
                let cap = gate_cap(ctx, fam);
                let mut ws: Vec<(usize, u64, usize)> = vec![];
                for n in &ns {
                    if let Some(c) = cap {
                        if *n > c {
                            break;
                        }
                    }
                    let Some(src) = render_family(fam, *n) else {
                        return Exec::discard("unknown family");
                    };
                    let p = probe_text(&src, 0b0001);
                    if let Some((sig, msg)) = p.fail {
                        let mut f = Exec::fail(format!("{} [family {}]", sig, fam), format!("family {} n={}: {}", fam, n, msg));
                        f.repro = Some(json!({"kind": "nest", "family": fam, "n": n}));
                        return f;
                    }
                    ws.push((*n, p.w, src.len()));
                }
                let mut worst = 0f64;
                let mut bad: Option<(usize, u64, u64)> = None;
                for pair in ws.windows(2) {
                    let (n0, w0, _) = pair[0];
                    let (n1, w1, _) = pair[1];
                    if n1 == 2 * n0 && w0 >= 32 {
                        let r = w1 as f64 / w0 as f64;
                        if r > worst {
                            worst = r;
                        }
                        if r > MAX_RATIO && bad.is_none() {
                            bad = Some((n0, w0, w1));
                        }
                    }
                }
                let series: Vec<Value> = ws.iter().map(|(n, w, l)| json!([n, w, l])).collect();
                let mut ex = match bad {
                    Some((n0, w0, w1)) => Exec::fail(
                        format!("c05:growth-ratio [family {}]", fam),
                        format!("family {}: parser work grows faster than degree ~2: w({})={} -> w({})={} (ratio {:.2} > {})", fam, n0, w0, 2 * n0, w1, w1 as f64 / w0 as f64, MAX_RATIO),
                    ),
                    None => Exec::pass(true),
                };
                ex.evals = ws.len().max(1) as u64;
                ex.nontrivial = ws.iter().filter(|(n, _, _)| *n >= 64).count() as u64;
                ex.observed = json!({"family": fam, "series_n_work_len": series, "worst_ratio": (worst * 100.0).round() / 100.0});
                let growth = if worst <= 1.2 {
                    "growth:flat"
                } else if worst <= 2.5 {
                    "growth:linear"
                } else {
                    "growth:superlinear(<=5)"
                };
                ex.tags = vec![growth.to_string()];
                ex
            }
            "boundary" => {
                // Largest n the parser accepts (acceptance is monotone in n for a nesting limit):
                // the deepest *legal* tree of the family then goes through the compiler and the
                // AST destructors; n_max-1, n_max, n_max+1 are each run through all routes.
                let fam = case["family"].as_str().unwrap_or("");
                let max = case["max"].as_u64().unwrap_or(20_000) as usize;
                let max = gate_cap(ctx, fam).map(|c| c.min(max)).unwrap_or(max);
                let mut evals = 0u64;
                let accepted = |n: usize, evals: &mut u64| -> Result<bool, Exec> {
                    let Some(src) = render_family(fam, n) else {
                        return Err(Exec::discard("unknown family"));
                    };
                    let p = probe_text(&src, 0b0001);
                    *evals += 1;
                    if let Some((sig, msg)) = p.fail {
                        let mut f = Exec::fail(format!("{} [family {}]", sig, fam), format!("family {} n={}: {}", fam, n, msg));
                        f.repro = Some(json!({"kind": "nest", "family": fam, "n": n}));
                        return Err(f);
                    }
                    Ok(p.outcomes.first().map(|o| !o.contains("=err")).unwrap_or(false))
                };
                let a1 = match accepted(1, &mut evals) {
                    Ok(a) => a,
                    Err(e) => return e,
                };
                let amax = match accepted(max, &mut evals) {
                    Ok(a) => a,
                    Err(e) => return e,
                };
                let mut ex = Exec::pass(true);
                let mut limit: Option<usize> = None;
                if a1 && !amax {
                    let (mut lo, mut hi) = (1usize, max);
                    while hi - lo > 1 {
                        let mid = (lo + hi) / 2;
                        match accepted(mid, &mut evals) {
                            Ok(true) => lo = mid,
                            Ok(false) => hi = mid,
                            Err(e) => return e,
                        }
                    }
                    limit = Some(lo);
                    for n in [lo.saturating_sub(1), lo, lo + 1] {
                        let Some(src) = render_family(fam, n) else { continue };
                        let e = exec_text(&src, 0b1111, "family", true);
                        evals += 1;
                        if e.is_fail() {
                            let mut f = Exec::fail(format!("{} [family {}]", e.signature, fam), format!("family {} at its acceptance boundary n={}: {:?}", fam, n, e.verdict));
                            f.repro = Some(json!({"kind": "nest", "family": fam, "n": n}));
                            return f;
                        }
                    }
                }
                ex.evals = evals.max(1);
                ex.nontrivial = evals;
                ex.observed = json!({"family": fam, "accepted_at_1": a1, "accepted_at_max": amax, "largest_accepted_n": limit});
                ex.tags = vec![match (a1, amax) {
                    (true, true) => "boundary:accepted-to-max".to_string(),
                    (true, false) => "boundary:limit-found".to_string(),
                    (false, _) => "boundary:never-accepted".to_string(),
                }];
                ex
            }
            "corpus-accepted" => {
                // Pinned behaviour (regress/C05/corpus-accepted.json), not a property oracle: the seed
                // corpus of domain (3) "mutations of VALID programs" was accepted on every route when
                // it was pinned. If a program is rejected now, the domain claim is void (and a parser
                // that mis-rewinds after a failed speculation shows up here first).
                for (i, src) in CORPUS.iter().enumerate() {
                    let p = probe_text(src, 0b1111);
                    if let Some((sig, msg)) = p.fail {
                        return Exec::fail(sig, format!("corpus program {}: {}", i, msg));
                    }
                    if let Some(bad) = p.outcomes.iter().find(|o| !o.contains("=ok")) {
                        let owned = src.to_string();
                        let why = on_fixed_stack(move || {
                            let mut dict = tsrun::StringDict::new();
                            let mut ps = tsrun::parser::Parser::new(&owned, &mut dict);
                            match ps.parse_program() {
                                Ok(prog) => tsrun::compiler::Compiler::compile_program(&prog).err().map(|e| e.to_string()).unwrap_or_default(),
                                Err(e) => e.to_string(),
                            }
                        })
                        .unwrap_or_default();
                        let mut f = Exec::fail(
                            "c05:seed-corpus-rejected",
                            format!("corpus program {} (accepted when pinned) is no longer accepted: {} ({}) - precondition of the corpus-mutation domain", i, bad, why),
                        );
                        f.repro = Some(json!({"kind": "text", "dom": "corpus", "routes": 15, "src": src}));
                        return f;
                    }
                }
                let mut ex = Exec::pass(true);
                ex.evals = CORPUS.len() as u64;
                ex.nontrivial = CORPUS.len() as u64;
                ex
            }
            "corpus-report" => {
                // maintenance aid: which corpus programs does the parser reject, and why
                let mut rep = vec![];
                for (i, src) in CORPUS.iter().enumerate() {
                    let owned = src.to_string();
                    let r = on_fixed_stack(move || {
                        let mut dict = tsrun::StringDict::new();
                        let mut p = tsrun::parser::Parser::new(&owned, &mut dict);
                        match p.parse_program() {
                            Ok(prog) => match tsrun::compiler::Compiler::compile_program(&prog) {
                                Ok(_) => "ok".to_string(),
                                Err(e) => format!("compile: {}", e),
                            },
                            Err(e) => format!("parse: {}", e),
                        }
                    });
                    rep.push(json!([i, r.unwrap_or_else(|e| e)]));
                }
                Exec::pass(false).with_observed(json!(rep))
            }
            "corpus-enum" => {
                let prog = case["prog"].as_u64().unwrap_or(0) as usize;
                let op = case["op"].as_str().unwrap_or("");
                let mut evals = 0u64;
                let mut nontrivial = 0u64;
                let mut accepted = 0u64;
                let mut first: Option<Exec> = None;
                let mut first_src = String::new();
                // the unmutated program itself must be accepted by the parser (corpus sanity; information)
                let whole = CORPUS.get(prog).map(|s| probe_text(s, 0b0001));
                let whole_ok = whole.as_ref().map(|p| p.outcomes.first().map(|o| !o.contains("=err")).unwrap_or(false)).unwrap_or(false);
                let mut k = 0;
                while let Some(src) = corpus_variant(prog, op, k) {
                    let e = exec_text(&src, if k % 8 == 0 { 0b1111 } else { 0b0001 }, "corpus-enum", true);
                    evals += 1;
                    if e.tags.iter().any(|t| t == "outcome:accepted") {
                        accepted += 1;
                    }
                    if e.is_fail() {
                        if first.is_none() {
                            first_src = src.clone();
                            first = Some(e);
                        }
                    } else {
                        nontrivial += e.nontrivial;
                    }
                    k += 1;
                }
                let mut ex = match first {
                    Some(e) => {
                        let mut f = Exec::fail(e.signature.clone(), format!("corpus program {} {}: {}", prog, op, match &e.verdict {
                            crate::core::Verdict::Fail(m) => m.clone(),
                            _ => String::new(),
                        }));
                        f.repro = Some(json!({"kind": "text", "dom": "corpus-enum", "src": first_src}));
                        f.observed = e.observed;
                        f
                    }
                    None => Exec::pass(true),
                };
                ex.evals = evals.max(1);
                ex.nontrivial = nontrivial;
                ex.counters.push((format!("corpus-enum:{}", op), evals));
                ex.counters.push((format!("corpus-enum:{}:accepted", op), accepted));
                if op == "prefix" {
                    ex.counters.push(("corpus-programs".into(), 1));
                    ex.counters.push(("corpus-programs-accepted-unmutated".into(), whole_ok as u64));
                }
                ex
            }
            _ => Exec::discard("unknown case kind"),
        }
    }
    fn tolerated_signature(&self, _sig: &str, _ctx: &Ctx) -> bool {
        false
    }
}


impl C05Prop {
    fn generate_text(&self, dom: usize, tape: &mut Tape, ctx: &Ctx) -> Value {
        match dom {

            0 => {
                // corpus mutation
                let prog = tape.below(CORPUS.len());
                let src = CORPUS[prog];
                let mut toks: Vec<String> = simple_tokens(src).into_iter().map(|s| s.to_string()).collect();
                let nmut = 1 + tape.below(3);
                let mut ops = vec![];
                for _ in 0..nmut {
                    let sol: Vec<usize> = toks.iter().enumerate().filter(|(_, t)| !is_ws(t)).map(|(i, _)| i).collect();
                    if sol.is_empty() {
                        break;
                    }
                    let at = sol[tape.below(sol.len())];
                    match tape.below(7) {
                        0 => {
                            toks.remove(at);
                            ops.push("delete");
                        }
                        1 => {
                            let t = toks[at].clone();
                            toks.insert(at, t);
                            toks.insert(at + 1, " ".into());
                            ops.push("dup");
                        }
                        2 => {
                            toks[at] = vocab(tape).to_string();
                            ops.push("replace");
                        }
                        3 => {
                            toks.insert(at, format!("{} ", vocab(tape)));
                            ops.push("insert");
                        }
                        4 => {
                            let other = sol[tape.below(sol.len())];
                            toks.swap(at, other);
                            ops.push("swap");
                        }
                        5 => {
                            toks.truncate(at);
                            ops.push("truncate");
                        }
                        _ => {
                            // cut inside the token at a char boundary (unterminated strings/escapes/templates)
                            let t = toks[at].clone();
                            let mut cut = tape.below(t.len().max(1));
                            while !t.is_char_boundary(cut) {
                                cut -= 1;
                            }
                            toks.truncate(at);
                            toks.push(t[..cut].to_string());
                            ops.push("cut-in-token");
                        }
                    }
                }
                json!({"kind": "text", "dom": "corpus-mutation", "src": toks.concat(), "ops": ops, "prog": prog})
            }
            1 => {
                // template grammar with glitches
                let mut out = String::new();
                let mut budget: i64 = 60 + tape.below(200) as i64;
                let nst = 1 + tape.below(4);
                for _ in 0..nst {
                    expand("$S", tape, 0, &mut out, &mut budget);
                    out.push_str(*tape.pick(&["\n", " ", ";", ""]));
                }
                if out.len() > 6000 {
                    let mut cut = 6000;
                    while !out.is_char_boundary(cut) {
                        cut -= 1;
                    }
                    out.truncate(cut);
                }
                json!({"kind": "text", "dom": "grammar", "src": out})
            }
            2 => {
                // token soup
                let n = tape.below(160);
                let mut out = String::new();
                for _ in 0..n {
                    out.push_str(vocab(tape));
                    out.push_str(*tape.pick(&[" ", "", "", "\n"]));
                }
                json!({"kind": "text", "dom": "token-soup", "src": out})
            }
            3 => {
                // composite nesting
                let ctxs = ['E', 'E', 'S', 'T'];
                let c = ctxs[tape.below(ctxs.len())];
                let pool: Vec<usize> = FAMILIES.iter().enumerate().filter(|(_, f)| f.ctx == c).map(|(i, _)| i).collect();
                let mut levels: Vec<(usize, usize)> = vec![];
                let mut excluded = 0u64;
                let ncycles = 1 + tape.below(3);
                let mut total = 0usize;
                for _ in 0..ncycles {
                    let clen = 1 + tape.below(3);
                    let cyc: Vec<usize> = (0..clen).map(|_| pool[tape.below(pool.len())]).collect();
                    let reps = 1 + tape.below(40);
                    for _ in 0..reps {
                        for fi in &cyc {
                            if total >= 96 {
                                break;
                            }
                            if let Some(cap) = gate_cap(ctx, FAMILIES[*fi].name) {
                                if total >= cap {
                                    excluded += 1;
                                    continue;
                                }
                            }
                            levels.push((*fi, 1));
                            total += 1;
                        }
                    }
                }
                // S-context composites may carry an expression composite as their core
                let names: Vec<&str> = levels.iter().map(|(fi, _)| FAMILIES[*fi].name).collect();
                let mut distinct: Vec<&str> = names.clone();
                distinct.dedup();
                distinct.sort();
                distinct.dedup();
                json!({"kind": "text", "dom": "composite-nesting", "src": render_composite(&levels, c), "wrappers": distinct, "levels": total, "excluded": excluded})
            }
            4 => {
                // valid UTF-8 over pools
                let n = tape.below(200);
                let mut out = String::new();
                if tape.chance(1, 4) {
                    out.push('\u{feff}');
                }
                for _ in 0..n {
                    match tape.below(5) {
                        0 | 1 => out.push(HOT_BYTES[tape.below(HOT_BYTES.len())] as char),
                        2 => out.push(UNI_POOL[tape.below(UNI_POOL.len())]),
                        3 => out.push_str(vocab(tape)),
                        _ => {
                            let r = tape.raw() % 0x110000;
                            out.push(char::from_u32(r).unwrap_or('\u{fffd}'));
                        }
                    }
                }
                json!({"kind": "text", "dom": "utf8", "src": out})
            }
            _ => {
                // raw bytes, lossy
                let n = tape.below(300);
                let mut bytes = Vec::with_capacity(n);
                let hot = tape.chance(1, 2);
                let mut word = 0u32;
                for i in 0..n {
                    if i % 4 == 0 {
                        word = tape.raw();
                    }
                    let b = (word >> ((i % 4) * 8)) as u8;
                    bytes.push(if hot && b < 200 { HOT_BYTES[b as usize % HOT_BYTES.len()] } else { b });
                }
                json!({"kind": "text", "dom": "bytes-lossy", "src": String::from_utf8_lossy(&bytes).to_string()})
            }
        }
    }
}

enum Verdict2 {
    Fail,
    Other,
}
fn verdict_of(e: &Exec) -> Verdict2 {
    if e.is_fail() {
        Verdict2::Fail
    } else {
        Verdict2::Other
    }
}
