use crate::core::Property;

pub mod bigint;
pub mod c01;
pub mod c02;
pub mod c03;
pub mod c04;
pub mod c04gen;
pub mod c05;
pub mod c06;
pub mod c06paths;
pub mod c07;
pub mod c08;
pub mod c08model;
pub mod c09;
pub mod c10;
pub mod c10gen;
pub mod c11;
pub mod c12;
pub mod c13;
pub mod c14;
pub mod c15;
pub mod c15gen;
pub mod c15js;
pub mod c16;
pub mod c17;
pub mod c18;
pub mod c19;
pub mod c19gen;
pub mod c20;
pub mod numref;

pub fn all() -> Vec<&'static dyn Property> {
    vec![&c01::C01, &c02::C02, &c03::C03, &c04::C04, &c05::C05, &c06::C06, &c07::C07, &c08::C08, &c09::C09, &c10::C10, &c11::C11, &c12::C12, &c13::C13, &c14::C14, &c15::C15, &c16::C16, &c17::C17, &c18::C18, &c19::C19, &c20::C20]
}

pub fn lookup(id: &str) -> Option<&'static dyn Property> {
    all().into_iter().find(|p| p.id() == id)
}
