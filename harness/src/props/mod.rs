use crate::core::Property;

pub mod c18;

pub fn all() -> Vec<&'static dyn Property> {
    vec![&c18::C18]
}

pub fn lookup(id: &str) -> Option<&'static dyn Property> {
    all().into_iter().find(|p| p.id() == id)
}
