use crate::core::Property;

pub mod c01;
pub mod c09;
pub mod c18;

pub fn all() -> Vec<&'static dyn Property> {
    vec![&c01::C01, &c09::C09, &c18::C18]
}

pub fn lookup(id: &str) -> Option<&'static dyn Property> {
    all().into_iter().find(|p| p.id() == id)
}
