//! C11 — an interpreter stays usable and clean after failed or abandoned runs.

use crate::core::{guarded, Ctx, Exec, Plan, Property, Tier};
use crate::engine::{describe_step, drive, error_class, new_interp, render_value, reset_hooks, HostAction, RunOpts};
use crate::progen::{gen_script, Config};
use crate::tape::Tape;
use serde_json::{json, Value};
use std::cell::RefCell;
use std::rc::Rc;
use tsrun::{Interpreter, JsValue, ModulePath, OrderResponse, RuntimeValue, StepResult};

pub struct C11Prop;
pub static C11: C11Prop = C11Prop;

const BUDGET: u64 = 400_000;

/// Build a "dying" program: wrappers nested to depth d around an innermost action.
/// Returns (source, names declared inside the nesting).
fn gen_dead_run(tape: &mut Tape, idx: usize, gates: &crate::findings::Gates, excluded: &mut u64) -> (String, Vec<String>, Vec<String>, String) {
    let depth = 1 + tape.below(8);
    let mut names: Vec<String> = vec![];
    let mut tags: Vec<String> = vec![];
    let inner_kind = tape.below(6);
    let inner = match inner_kind {
        0 => "throw new Error(\"dead\");".to_string(),
        1 => "(null).x;".to_string(),
        2 => "(undefined)();".to_string(),
        3 => "throw {code: 7};".to_string(),
        // long-running: meant to be abandoned
        4 => "let spin = 0; for (let i = 0; i < 3000; i++) { spin += i; }".to_string(),
        _ => "globalThis.__done = (globalThis.__done || 0) + 1; console.log(\"__marked\");".to_string(),
    };
    tags.push(format!("inner:{}", ["throw-error", "null-member", "call-undefined", "throw-object", "long-loop", "complete"][inner_kind]));
    let mut body = inner;
    for d in 0..depth {
        let n = format!("n{}_{}", idx, d);
        names.push(n.clone());
        let k = tape.below(12);
        let (text, tag) = match k {
            0 => (format!("{{ let {n} = {d}; {body} }}", n = n, d = d, body = body), "block"),
            1 => (format!("(function f{n}() {{ let {n} = {d}; {body} }})();", n = n, d = d, body = body), "call"),
            2 => (format!("(() => {{ const {n} = {d}; {body} }})();", n = n, d = d, body = body), "arrow-call"),
            3 => (format!("({{ m() {{ let {n} = {d}; {body} }} }}).m();", n = n, d = d, body = body), "method-call"),
            4 => (format!("new (class {{ constructor() {{ let {n} = {d}; {body} }} }})();", n = n, d = d, body = body), "constructor"),
            5 => (format!("try {{ let {n} = {d}; {body} }} finally {{ let t{n} = 1; }}", n = n, d = d, body = body), "try-finally"),
            6 => (format!("try {{ let {n} = {d}; {body} }} catch (e{n}) {{ throw e{n}; }}", n = n, d = d, body = body), "try-catch-rethrow"),
            7 => {
                if gates.excluded("C11:dies-inside-generator") {
                    *excluded += 1;
                    (format!("{{ let {n} = {d}; {body} }}", n = n, d = d, body = body), "block")
                } else {
                    (format!("[...(function* g{n}() {{ let {n} = {d}; yield 1; {body} }})()];", n = n, d = d, body = body), "generator-body")
                }
            }
            8 => (format!("for (let {n} = 0; {n} < 1; {n}++) {{ {body} }}", n = n, body = body), "for-body"),
            9 => (format!("for (const {n} of [1]) {{ {body} }}", n = n, body = body), "for-of-body"),
            10 => (format!("switch (1) {{ case 1: {{ let {n} = {d}; {body} }} }}", n = n, d = d, body = body), "switch-case"),
            _ => (format!("[1].forEach(function cb{n}() {{ let {n} = {d}; {body} }});", n = n, d = d, body = body), "native-callback"),
        };
        tags.push(format!("wrap:{}", tag));
        body = text;
    }
    let src = format!("let top{idx} = \"t\"; const ctop{idx} = 1; function ftop{idx}() {{ return 1; }}\n{body}\n\"ran{idx}\"", idx = idx, body = body);
    let mut all_names = names.clone();
    // top-level declarations of a script are deliberate global effects only if the run is a script; for
    // module runs they must not be visible afterwards. They are tracked separately.
    all_names.push(format!("spin"));
    (src, all_names, tags, format!("depth{}", depth))
}


/// A module run that suspends on host orders inside nested scopes; the host answers `answers` of them and
/// then abandons the run while it is parked in `Suspended` (or lets it complete when it asks for no more).
fn gen_suspend_run(tape: &mut Tape, idx: usize) -> (Value, Vec<String>, Vec<String>) {
    let orders = 1 + tape.below(3);
    let answers = tape.below(orders + 1) as u64;
    let shape = tape.below(6);
    let top_level_await = tape.chance(1, 3);
    let i = idx;
    let body = match shape {
        0 => format!("let sb{i} = 0; for (let k = 0; k < {orders}; k++) {{ let sc{i} = k; const r = await order({{run: {i}, k}}); console.log(\"got{i}\", r, sc{i}); sb{i}++; }}"),
        1 => format!("let sb{i} = 0; for (const k of [{}]) {{ try {{ let sc{i} = k; const r = await order({{run: {i}, k}}); console.log(\"got{i}\", r); }} finally {{ let sd{i} = 3; sb{i}++; }} }}", (0..orders).map(|k| k.to_string()).collect::<Vec<_>>().join(", ")),
        2 => format!("let sb{i} = 0; const inner{i} = async (k) => {{ let sc{i} = k; {{ let sd{i} = k + 1; return (await order({{run: {i}, k}})) + sd{i}; }} }}; for (let k = 0; k < {orders}; k++) {{ sb{i} += String(await inner{i}(k)).length; }}"),
        3 => format!("let sb{i} = 0; class K{i} {{ constructor() {{ this.v = 1; }} async m(k) {{ let sc{i} = k; const r = await order({{run: {i}, k}}); return [r, this.v, sc{i}]; }} }} const o{i} = new K{i}(); for (let k = 0; k < {orders}; k++) {{ sb{i} += (await o{i}.m(k)).length; }}"),
        4 => format!("let sb{i} = 0; try {{ let sc{i} = 1; throw new Error(\"x\"); }} catch (e{i}) {{ let sd{i} = 2; for (let k = 0; k < {orders}; k++) {{ sb{i} += String(await order({{run: {i}, k}})).length + sd{i}; }} }}"),
        _ => format!("let sb{i} = 0; switch (1) {{ case 1: {{ let sc{i} = 7; for (let k = 0; k < {orders}; k++) {{ sb{i} += String(await Promise.all([order({{run: {i}, k}})])).length + sc{i}; }} }} }}"),
    };
    let src = if top_level_await {
        format!("import {{ order }} from \"tsrun:host\";\nexport const early{i} = \"e\";\nlet mtop{i} = 1;\n{{ let sa{i} = 1; {body} globalThis.__done = (globalThis.__done || 0) + 1; }}\nexport const late{i} = 2;\n\"susp{i}\"")
    } else {
        format!("import {{ order }} from \"tsrun:host\";\nexport const early{i} = \"e\";\nlet mtop{i} = 1;\nasync function work{i}() {{ let sa{i} = 1; {body} globalThis.__done = (globalThis.__done || 0) + 1; return sb{i}; }}\nconst res{i} = await work{i}();\nexport const late{i} = res{i};\n\"susp{i}\"")
    };
    let names: Vec<String> = ["sa", "sb", "sc", "sd", "mtop", "early", "late", "res", "work", "inner", "o"].iter().map(|n| format!("{}{}", n, i)).collect();
    let late_fulfil = tape.chance(1, 3);
    let tags = vec![format!("susp-shape:{}", shape), format!("susp-answers:{}of{}", answers, orders), if top_level_await { "susp:top-level-await".into() } else { "susp:async-fn".into() }, "run:suspend-module".into()];
    (json!({"kind": "suspend", "src": src, "path": format!("/susp{}/main.ts", i), "answers": answers, "orders": orders, "late_fulfil": late_fulfil}), names, tags)
}

/// A module run that needs host-provided imports and dies or is abandoned somewhere in the import flow.
fn gen_imports_run(tape: &mut Tape, idx: usize) -> (Value, Vec<String>, Vec<String>) {
    let i = idx;
    let variant = tape.below(6);
    let main_dies = variant == 4;
    let main = if main_dies {
        format!("import {{ a{i}, f{i} }} from \"./dep{i}.ts\";\nexport const m{i} = a{i} + 1;\nlet mt{i} = 2;\n{{ let mb{i} = 3; (null).x; }}\nexport const n{i} = 2;\n\"imp{i}\"")
    } else {
        format!("import {{ a{i}, f{i} }} from \"./dep{i}.ts\";\nexport const m{i} = a{i} + 1;\nlet mt{i} = 2;\nconsole.log(\"main{i}\", f{i}());\nglobalThis.__done = (globalThis.__done || 0) + 1;\n\"imp{i}\"")
    };
    let mut mods = serde_json::Map::new();
    let dep = format!("/imp{}/dep{}.ts", i, i);
    let tag = match variant {
        0 => "imports:never-supplied",
        1 => {
            mods.insert(dep, json!(format!("export const a{i} = 1;\nexport function f{i}() {{ return 1; }}\nlet dl{i} = 5;\n{{ let db{i} = 1; throw new Error(\"dep dies\"); }}")));
            "imports:dep-throws-after-exports"
        }
        2 => {
            mods.insert(dep, json!(format!("import {{ z{i} }} from \"./deeper{i}.ts\";\nexport const a{i} = z{i};\nexport function f{i}() {{ return 2; }}\nlet dl{i} = 5;")));
            "imports:deeper-never-supplied"
        }
        3 | 4 => {
            mods.insert(dep, json!(format!("export const a{i} = 1;\nexport function f{i}() {{ return 3; }}\nlet dl{i} = 5;")));
            if main_dies { "imports:main-throws-after-export" } else { "imports:complete" }
        }
        _ => {
            mods.insert(dep, json!(format!("import {{ z{i} }} from \"./deeper{i}.ts\";\nexport const a{i} = z{i};\nexport function f{i}() {{ return 2; }}\nlet dl{i} = 5;")));
            mods.insert(format!("/imp{}/deeper{}.ts", i, i), json!(format!("export const z{i} = 9;\nlet dz{i} = 1;\n[1].forEach(() => {{ let dy{i} = 2; undefinedFunction{i}(); }});")));
            "imports:deeper-throws"
        }
    };
    let names: Vec<String> = ["a", "f", "m", "mt", "mb", "n", "dl", "db", "z", "dz", "dy"].iter().map(|n| format!("{}{}", n, i)).collect();
    (json!({"kind": "imports", "src": main, "path": format!("/imp{}/main.ts", i), "mods": Value::Object(mods)}), names, vec![tag.to_string(), "run:imports-module".into()])
}

/// Result of one host-driven run, rendered without order ids (ids legitimately differ between a used and
/// a fresh interpreter).
fn run_hosted(interp: &mut Interpreter, run: &Value, dead_ids: &mut Vec<tsrun::OrderId>, late: &[tsrun::OrderId]) -> (String, bool) {
    let src = run["src"].as_str().unwrap_or("").to_string();
    let opts = RunOpts { module_path: run["path"].as_str().map(|s| s.to_string()), step_budget: BUDGET, vm_limit_per_step: 20_000_000, ..Default::default() };
    let answers = run["answers"].as_u64().unwrap_or(u64::MAX);
    let mods = run["mods"].as_object().cloned().unwrap_or_default();
    let mut answered = 0u64;
    let mut kinds: Vec<String> = vec![];
    let mut abandoned_parked = false;
    let mut late_sent = false;
    let mut outstanding: Vec<tsrun::OrderId> = vec![];
    let (end, _err, _steps, _trace) = drive(interp, &src, &opts, &mut |it, r| match r {
        StepResult::Suspended { pending, cancelled } => {
            // an empty Suspended (nothing new for the host) is an artefact of the host's own timing: not recorded
            if !(pending.is_empty() && cancelled.is_empty()) {
                kinds.push(format!("suspended:{}+{}c:{}", pending.len(), cancelled.len(), pending.iter().map(|o| render_value(&o.payload)).collect::<Vec<_>>().join(";")));
            }
            for o in pending {
                outstanding.push(o.id);
            }
            if answered >= answers || outstanding.is_empty() {
                abandoned_parked = true;
                return HostAction::Stop;
            }
            if !late_sent {
                // answers to orders of ABANDONED earlier runs arrive now, while this run is parked on its own order
                late_sent = true;
                let stale: Vec<OrderResponse> = late.iter().map(|id| OrderResponse { id: *id, result: Ok(RuntimeValue::unguarded(JsValue::Number(99.0))) }).collect();
                if !stale.is_empty() {
                    // ... and arrive alone: the run's own order is answered one round later
                    it.fulfill_orders(stale);
                    return HostAction::Resume;
                }
            }
            let rs: Vec<OrderResponse> = outstanding.drain(..).map(|id| OrderResponse { id, result: Ok(RuntimeValue::unguarded(JsValue::Number(7.0))) }).collect();
            answered += rs.len() as u64;
            it.fulfill_orders(rs);
            HostAction::Resume
        }
        StepResult::NeedImports(reqs) => {
            kinds.push(format!("needimports:{}", reqs.iter().map(|q| q.resolved_path.as_str().to_string()).collect::<Vec<_>>().join(",")));
            for q in reqs {
                match mods.get(q.resolved_path.as_str()).and_then(|v| v.as_str()) {
                    Some(text) => {
                        if let Err(e) = it.provide_module(q.resolved_path.clone(), text) {
                            kinds.push(format!("provide-error:{}", error_class(&e)));
                            return HostAction::Stop;
                        }
                    }
                    None => {
                        abandoned_parked = true;
                        return HostAction::Stop;
                    }
                }
            }
            HostAction::Resume
        }
        _ => HostAction::Stop,
    });
    tsrun::verif_hooks::vm_instr_set_limit(0);
    dead_ids.extend(outstanding);
    let end = if abandoned_parked { format!("abandoned-parked[{}]", kinds.join("|")) } else { format!("{}[{}]", end.split(":pending").next().unwrap_or(""), kinds.join("|")) };
    (end, abandoned_parked)
}

fn exports_of(interp: &Interpreter) -> String {
    let mut names = interp.get_export_names();
    names.sort();
    names.iter().map(|n| format!("{}={}", n, interp.get_export(n).map(|v| crate::engine::render_js(&v)).unwrap_or("<none>".into()))).collect::<Vec<_>>().join(",")
}

/// The three structured observers: a module with exports, a module with an import + export *, a module awaiting an order.
fn structured_observers(names: &[String]) -> Vec<Value> {
    let typeofs: Vec<String> = names.iter().take(24).map(|n| format!("typeof {}", n)).collect();
    vec![
        json!({"kind": "observer", "src": format!("export const oa = 1;\nexport function ofn() {{ return 2; }}\nexport default \"d\";\n[{}].join(\",\")", typeofs.join(", ")), "path": "/obs/o1.ts"}),
        json!({"kind": "observer", "src": "import * as ns from \"./o2dep.ts\";\nexport * from \"./o2dep.ts\";\nexport const ob = Object.keys(ns).sort().join(\",\");\nob", "path": "/obs/o2.ts", "mods": {"/obs/o2dep.ts": "export const da = 1;\nexport let db = 2;\nlet hidden = 3;"}}),
        json!({"kind": "observer", "src": "import { order } from \"tsrun:host\";\nlet seen = [];\nfor (let k = 0; k < 2; k++) { seen.push(await order({q: k})); }\nexport const oc = seen.join(\"-\");\n\"o3:\" + oc", "path": "/obs/o3.ts"}),
    ]
}

struct Session {
    interp: Interpreter,
    log: Rc<RefCell<Vec<String>>>,
}

fn run_to_end(interp: &mut Interpreter, src: &str, path: Option<&str>, max_steps: Option<u64>) -> (String, u64) {
    let mut res = match interp.prepare(src, path.map(ModulePath::new)) {
        Ok(r) => r,
        Err(e) => return (format!("error:{}", error_class(&e)), 0),
    };
    let mut steps = 0u64;
    loop {
        match res {
            StepResult::Continue => {}
            other => return (describe_step(&other).chars().take(300).collect(), steps),
        }
        if let Some(m) = max_steps {
            if steps >= m {
                return ("abandoned".into(), steps);
            }
        }
        steps += 1;
        if steps > BUDGET {
            return ("budget".into(), steps);
        }
        res = match interp.step() {
            Ok(r) => r,
            Err(e) => return (format!("error:{}", error_class(&e)), steps),
        };
    }
}

impl Property for C11Prop {
    fn id(&self) -> &'static str {
        "C11"
    }
    fn rule(&self) -> String {
        "A history on ONE interpreter: 1-4 earlier runs, each a program whose state lives in nested scopes (wrappers drawn from: block, function call, arrow call, method call, constructor, try/finally, try/catch-rethrow, generator body, for / for-of body, switch case, native callback; nesting depth 1-8) run as script or as module, ended by completion, by an uncaught error thrown at the innermost level, or by abandonment after a tape-chosen number of steps (then replaced by the next prepare); followed by observer programs: typeof of every name the dead runs declared inside their nesting (and, for module runs, at module top level), fresh let-declarations reusing those names, and a random progen program. Oracle: every observer outcome equals the outcome on a FRESH interpreter that only executed the deliberate global writes; call_depth()==0 and the H4 quiescence snapshot is clean (global environment, no env guards, empty call stack, no active VM, empty order/wait bookkeeping) after every ended or replaced run. One run in three interacts with the host: a module awaiting 1-3 host orders inside nested scopes (6 shapes: loops, try/finally, nested async arrow, method using this, catch block, switch+Promise.all; top-level await or async function) that the host abandons while it is parked in Suspended after answering 0..n orders, or a module whose imports the host never supplies / supplies with a dependency that throws after its first exports / whose deeper dependency is missing or throws / whose own body throws after an export (abandoned in NeedImports or ended by the error). Three structured module observers then run on the used and on a fresh interpreter: a module with exports (typeof of every name of the dead runs), a module with a namespace import and export *, and a module awaiting two orders while a late answer for an order of an abandoned run arrives; their result kinds, output, export tables (get_export_names/get_export) and bookkeeping must be equal. Non-trivial: a run died at nesting depth >= 2, was abandoned inside a call or was abandoned while parked in Suspended/NeedImports. Distinct = distinct history.".into()
    }
    fn assumptions(&self) -> Vec<String> {
        vec!["top-level declarations of earlier SCRIPT runs are deliberate effects on global state (observers avoid those names); module-level declarations are not".into()]
    }
    fn plan(&self, tier: Tier) -> Plan {
        Plan { shards: 16, cases_per_shard: tier.pick(2500, 40000), tape_len: tier.pick(600, 1200), watchdog_s: tier.pick(900, 7200) }
    }
    fn generate(&self, tape: &mut Tape, ctx: &Ctx) -> Value {
        let gates = ctx.gates.only_prefixed("C11:");
        let k = 1 + tape.below(4);
        let mut runs = vec![];
        let mut inner_names: Vec<String> = vec![];
        let mut module_top_names: Vec<String> = vec![];
        let mut tags: Vec<String> = vec![];
        let mut excluded = 0u64;
        for idx in 0..k {
            // one run in three interacts with the host (orders / imports) and can be abandoned while parked
            let hosted = tape.below(6);
            if hosted == 4 || hosted == 5 {
                let (run, names, t) = if hosted == 4 { gen_suspend_run(tape, idx) } else { gen_imports_run(tape, idx) };
                module_top_names.extend(names);
                tags.extend(t);
                runs.push(run);
                continue;
            }
            let (src, names, t, d) = gen_dead_run(tape, idx, &gates, &mut excluded);
            let as_module = tape.chance(1, 3);
            if as_module && gates.excluded("C11:module-run") {
                excluded += 1;
            }
            let as_module = as_module && !gates.excluded("C11:module-run");
            let abandon = if tape.chance(1, 3) { Some(1 + tape.below(3000) as u64) } else { None };
            if abandon.is_some() && gates.excluded("C11:abandoned-run") {
                excluded += 1;
            }
            let abandon = if gates.excluded("C11:abandoned-run") { None } else { abandon };
            inner_names.extend(names);
            if as_module {
                module_top_names.push(format!("top{}", idx));
                module_top_names.push(format!("ctop{}", idx));
                module_top_names.push(format!("ftop{}", idx));
            }
            tags.extend(t);
            tags.push(d);
            tags.push(if as_module { "run:module".into() } else { "run:script".into() });
            if abandon.is_some() {
                tags.push("end:abandon".into());
            }
            runs.push(json!({"src": src, "module": as_module, "abandon_after": abandon}));
        }
        // observers
        let mut obs: Vec<String> = vec![];
        let all: Vec<String> = inner_names.iter().chain(module_top_names.iter()).cloned().collect();
        let typeofs: Vec<String> = all.iter().map(|n| format!("typeof {}", n)).collect();
        obs.push(format!("[{}].join(\",\")", typeofs.join(", ")));
        let decls: Vec<String> = all.iter().filter(|n| *n != "spin").take(6).map(|n| format!("let {} = \"fresh\";", n)).collect();
        obs.push(format!("{} [{}].join(\",\")", decls.join(" "), all.iter().filter(|n| *n != "spin").take(6).cloned().collect::<Vec<_>>().join(", ")));
        let p = gen_script(tape, &crate::findings::Gates::none(), Config::full(8));
        obs.push(p.js());
        let obs2 = structured_observers(&all);
        json!({"runs": runs, "observers": obs, "observers2": obs2, "tags": tags, "excluded": excluded})
    }
    fn execute(&self, case: &Value, _ctx: &mut Ctx) -> Exec {
        let runs = case["runs"].as_array().cloned().unwrap_or_default();
        let observers: Vec<String> = case["observers"].as_array().map(|a| a.iter().map(|x| x.as_str().unwrap_or("").to_string()).collect()).unwrap_or_default();
        let tags: Vec<String> = case["tags"].as_array().map(|a| a.iter().filter_map(|x| x.as_str().map(|s| s.to_string())).collect()).unwrap_or_default();
        reset_hooks();
        let r = guarded(|| {
            let log = Rc::new(RefCell::new(Vec::new()));
            let mut s = Session { interp: new_interp(&log), log };
            let mut problems: Vec<String> = vec![];
            let mut ends: Vec<String> = vec![];
            let mut deep = false;
            let mut dead_ids: Vec<tsrun::OrderId> = vec![];
            let mut late_ids: Vec<tsrun::OrderId> = vec![];
            for (i, run) in runs.iter().enumerate() {
                let src = run["src"].as_str().unwrap_or("");
                let hosted = run["kind"].as_str().is_some();
                let (end, steps) = if hosted {
                    let before = dead_ids.len();
                    let (end, parked) = run_hosted(&mut s.interp, run, &mut dead_ids, &[]);
                    if parked {
                        deep = true;
                        if run["late_fulfil"].as_bool() == Some(true) {
                            late_ids.extend(dead_ids[before..].iter().cloned());
                        }
                    }
                    (if parked { format!("abandoned:{}", end) } else { end }, 1)
                } else {
                    let path = if run["module"].as_bool() == Some(true) { Some(format!("/m{}.ts", i)) } else { None };
                    let abandon = run["abandon_after"].as_u64();
                    tsrun::verif_hooks::vm_instr_set_limit(20_000_000);
                    tsrun::verif_hooks::vm_instr_reset();
                    let r = run_to_end(&mut s.interp, src, path.as_deref(), abandon);
                    tsrun::verif_hooks::vm_instr_set_limit(0);
                    r
                };
                s.log.borrow_mut().clear();
                if end == "abandoned" && s.interp.call_depth() >= 1 {
                    deep = true;
                }
                if end.starts_with("error:") && src.matches("let n").count() >= 2 {
                    deep = true;
                }
                let abandoned = end.starts_with("abandoned");
                ends.push(format!("{}@{}", end.chars().take(40).collect::<String>(), steps));
                if !abandoned {
                    // an ENDED run must leave the interpreter quiescent
                    let q = s.interp.verif_quiescence();
                    let mut bad = vec![];
                    if s.interp.call_depth() != 0 {
                        bad.push(format!("call_depth={}", s.interp.call_depth()));
                    }
                    if !q.env_is_global {
                        bad.push("env-not-global".into());
                    }
                    if q.env_guards != 0 {
                        bad.push(format!("env_guards={}", q.env_guards));
                    }
                    if q.call_stack != 0 {
                        bad.push(format!("call_stack={}", q.call_stack));
                    }
                    if q.active_vm {
                        bad.push("active_vm".into());
                    }
                    if q.pending_orders != 0 || q.cancelled_orders != 0 || q.order_responses != 0 || q.suspended_for_order || q.wait_contexts != 0 || q.ready_queue != 0 || q.pending_program || q.pending_module_sources != 0 {
                        bad.push("async/module bookkeeping left".into());
                    }
                    if !bad.is_empty() {
                        problems.push(format!("after run {} ({}): {}", i, end.chars().take(30).collect::<String>(), bad.join(" ")));
                    }
                }
            }
            // the deliberate global effect of the earlier runs (a run may have been abandoned right after
            // performing it): read it back once; the fresh interpreter is given the same value
            let (mark_end, _) = run_to_end(&mut s.interp, "String(globalThis.__done)", None, None);
            let completed_marks: u64 = mark_end.strip_prefix("complete:str:").and_then(|v| v.parse().ok()).unwrap_or(0);
            // observers on the used interpreter
            let mut used: Vec<String> = vec![];
            let mut used_q: Vec<String> = vec![];
            for (k, o) in observers.iter().enumerate() {
                s.log.borrow_mut().clear();
                let (end, _) = run_to_end(&mut s.interp, o, None, None);
                used.push(format!("{}|{}", end, s.log.borrow().join("\u{1}")));
                // a replaced (abandoned) run must be gone once the next run has been prepared and ended:
                // compared below with the snapshot of the fresh interpreter after the same observer
                let q = s.interp.verif_quiescence();
                used_q.push(format!("observer {}: call_depth={} env_is_global={} env_guards={} call_stack={} active_vm={}", k, s.interp.call_depth(), q.env_is_global, q.env_guards, q.call_stack, q.active_vm));
            }
            // structured observers (modules with exports / imports / orders); a late answer to an order of
            // an abandoned run arrives while the order observer is suspended: it must not resurrect anything
            let obs2: Vec<Value> = case["observers2"].as_array().cloned().unwrap_or_default();
            let run_obs2 = |sess: &mut Session, late: &[tsrun::OrderId]| -> Vec<String> {
                let mut out = vec![];
                for (k, o) in obs2.iter().enumerate() {
                    sess.log.borrow_mut().clear();
                    let mut sink = vec![];
                    // the order observer receives the late answers while it is parked on its first order
                    let (end, _) = run_hosted(&mut sess.interp, o, &mut sink, if k == 2 { late } else { &[] });
                    let q = sess.interp.verif_quiescence();
                    out.push(format!("{}|{}|exports:{}|call_depth={} env_is_global={} env_guards={} call_stack={} active_vm={} suspended={} waiters={}", end, sess.log.borrow().join("\u{1}"), exports_of(&sess.interp), sess.interp.call_depth(), q.env_is_global, q.env_guards, q.call_stack, q.active_vm, q.suspended_for_order, q.wait_contexts));
                }
                out
            };
            let used2 = run_obs2(&mut s, &late_ids);
            // the same observers on a fresh interpreter that only saw the deliberate global writes
            let log2 = Rc::new(RefCell::new(Vec::new()));
            let mut f = Session { interp: new_interp(&log2), log: log2 };
            if completed_marks > 0 {
                let _ = run_to_end(&mut f.interp, &format!("globalThis.__done = {};", completed_marks), None, None);
            }
            // script-level declarations of earlier script runs are deliberate global effects: replay them
            for (i, run) in runs.iter().enumerate() {
                if run["module"].as_bool() != Some(true) && run["kind"].as_str().is_none() {
                    // only if the run got past its first statement (declarations execute first)
                    let started = ends.get(i).map(|e| !e.ends_with("@0") || !e.starts_with("abandoned")).unwrap_or(true);
                    if started {
                        let _ = run_to_end(&mut f.interp, &format!("let top{i} = \"t\"; const ctop{i} = 1; function ftop{i}() {{ return 1; }}", i = i), None, None);
                    }
                }
            }
            let mut fresh: Vec<String> = vec![];
            let mut fresh_q: Vec<String> = vec![];
            for (k, o) in observers.iter().enumerate() {
                f.log.borrow_mut().clear();
                let (end, _) = run_to_end(&mut f.interp, o, None, None);
                fresh.push(format!("{}|{}", end, f.log.borrow().join("\u{1}")));
                let q = f.interp.verif_quiescence();
                fresh_q.push(format!("observer {}: call_depth={} env_is_global={} env_guards={} call_stack={} active_vm={}", k, f.interp.call_depth(), q.env_is_global, q.env_guards, q.call_stack, q.active_vm));
            }
            let fresh2 = run_obs2(&mut f, &[]);
            for (k, (u, fr)) in used2.iter().zip(fresh2.iter()).enumerate() {
                if u != fr {
                    problems.push(format!("module observer {} differs: used={:?} fresh={:?}", k, u.chars().take(260).collect::<String>(), fr.chars().take(260).collect::<String>()));
                }
            }
            for (u, fr) in used_q.iter().zip(fresh_q.iter()) {
                if u != fr {
                    problems.push(format!("bookkeeping after {} (fresh interpreter: {})", u, fr));
                }
            }
            for (k, (u, fr)) in used.iter().zip(fresh.iter()).enumerate() {
                if u != fr {
                    problems.push(format!("observer {} differs: used={:?} fresh={:?}", k, u.chars().take(160).collect::<String>(), fr.chars().take(160).collect::<String>()));
                }
            }
            (problems, ends, deep)
        });
        tsrun::verif_hooks::vm_instr_set_limit(0);
        let (problems, ends, deep) = match r {
            Ok(x) => x,
            Err(p) => {
                if p.contains("verif: vm work limit") {
                    return Exec::discard("budget");
                }
                return Exec::discard(format!("panic (C06 business): {}", p.chars().take(100).collect::<String>()));
            }
        };
        if ends.iter().any(|e| e.starts_with("budget")) {
            return Exec::discard("budget");
        }
        if let Some(first) = problems.first() {
            let class: String = first.chars().filter(|c| !c.is_ascii_digit()).take(70).collect();
            let mut e = Exec::fail(format!("c11:{}", class), format!("state of earlier runs leaks: {:?} (ends: {:?})", problems, ends));
            e.observed = json!({"problems": problems, "ends": ends});
            e.tags = tags;
            return e;
        }
        let mut e = Exec::pass(deep);
        e.tags = tags;
        e.counters = vec![("excluded_by_gate".into(), case["excluded"].as_u64().unwrap_or(0))];
        e.observed = json!({"ends": ends});
        e
    }
}
