//! C11 — an interpreter stays usable and clean after failed or abandoned runs.

use crate::core::{guarded, Ctx, Exec, Plan, Property, Tier};
use crate::engine::{describe_step, error_class, new_interp, reset_hooks};
use crate::progen::{gen_script, Config};
use crate::tape::Tape;
use serde_json::{json, Value};
use std::cell::RefCell;
use std::rc::Rc;
use tsrun::{Interpreter, ModulePath, StepResult};

pub struct C11Prop;
pub static C11: C11Prop = C11Prop;

const BUDGET: u64 = 400_000;

/// Build a "dying" program: wrappers nested to depth d around an innermost action.
/// Returns (source, names declared inside the nesting).
fn gen_dead_run(tape: &mut Tape, idx: usize, gates: &crate::findings::Gates, excluded: &mut u64) -> (String, Vec<String>, Vec<String>, String) {
    let depth = 1 + tape.below(8);
    let mut names: Vec<String> = vec![];
    let mut tags: Vec<String> = vec![];
    let inner_kind = tape.below(6);
    let inner = match inner_kind {
        0 => "throw new Error(\"dead\");".to_string(),
        1 => "(null).x;".to_string(),
        2 => "(undefined)();".to_string(),
        3 => "throw {code: 7};".to_string(),
        // long-running: meant to be abandoned
        4 => "let spin = 0; for (let i = 0; i < 3000; i++) { spin += i; }".to_string(),
        _ => "globalThis.__done = (globalThis.__done || 0) + 1; console.log(\"__marked\");".to_string(),
    };
    tags.push(format!("inner:{}", ["throw-error", "null-member", "call-undefined", "throw-object", "long-loop", "complete"][inner_kind]));
    let mut body = inner;
    for d in 0..depth {
        let n = format!("n{}_{}", idx, d);
        names.push(n.clone());
        let k = tape.below(12);
        let (text, tag) = match k {
            0 => (format!("{{ let {n} = {d}; {body} }}", n = n, d = d, body = body), "block"),
            1 => (format!("(function f{n}() {{ let {n} = {d}; {body} }})();", n = n, d = d, body = body), "call"),
            2 => (format!("(() => {{ const {n} = {d}; {body} }})();", n = n, d = d, body = body), "arrow-call"),
            3 => (format!("({{ m() {{ let {n} = {d}; {body} }} }}).m();", n = n, d = d, body = body), "method-call"),
            4 => (format!("new (class {{ constructor() {{ let {n} = {d}; {body} }} }})();", n = n, d = d, body = body), "constructor"),
            5 => (format!("try {{ let {n} = {d}; {body} }} finally {{ let t{n} = 1; }}", n = n, d = d, body = body), "try-finally"),
            6 => (format!("try {{ let {n} = {d}; {body} }} catch (e{n}) {{ throw e{n}; }}", n = n, d = d, body = body), "try-catch-rethrow"),
            7 => {
                if gates.excluded("C11:dies-inside-generator") {
                    *excluded += 1;
                    (format!("{{ let {n} = {d}; {body} }}", n = n, d = d, body = body), "block")
                } else {
                    (format!("[...(function* g{n}() {{ let {n} = {d}; yield 1; {body} }})()];", n = n, d = d, body = body), "generator-body")
                }
            }
            8 => (format!("for (let {n} = 0; {n} < 1; {n}++) {{ {body} }}", n = n, body = body), "for-body"),
            9 => (format!("for (const {n} of [1]) {{ {body} }}", n = n, body = body), "for-of-body"),
            10 => (format!("switch (1) {{ case 1: {{ let {n} = {d}; {body} }} }}", n = n, d = d, body = body), "switch-case"),
            _ => (format!("[1].forEach(function cb{n}() {{ let {n} = {d}; {body} }});", n = n, d = d, body = body), "native-callback"),
        };
        tags.push(format!("wrap:{}", tag));
        body = text;
    }
    let src = format!("let top{idx} = \"t\"; const ctop{idx} = 1; function ftop{idx}() {{ return 1; }}\n{body}\n\"ran{idx}\"", idx = idx, body = body);
    let mut all_names = names.clone();
    // top-level declarations of a script are deliberate global effects only if the run is a script; for
    // module runs they must not be visible afterwards. They are tracked separately.
    all_names.push(format!("spin"));
    (src, all_names, tags, format!("depth{}", depth))
}

struct Session {
    interp: Interpreter,
    log: Rc<RefCell<Vec<String>>>,
}

fn run_to_end(interp: &mut Interpreter, src: &str, path: Option<&str>, max_steps: Option<u64>) -> (String, u64) {
    let mut res = match interp.prepare(src, path.map(ModulePath::new)) {
        Ok(r) => r,
        Err(e) => return (format!("error:{}", error_class(&e)), 0),
    };
    let mut steps = 0u64;
    loop {
        match res {
            StepResult::Continue => {}
            other => return (describe_step(&other).chars().take(300).collect(), steps),
        }
        if let Some(m) = max_steps {
            if steps >= m {
                return ("abandoned".into(), steps);
            }
        }
        steps += 1;
        if steps > BUDGET {
            return ("budget".into(), steps);
        }
        res = match interp.step() {
            Ok(r) => r,
            Err(e) => return (format!("error:{}", error_class(&e)), steps),
        };
    }
}

impl Property for C11Prop {
    fn id(&self) -> &'static str {
        "C11"
    }
    fn rule(&self) -> String {
        "A history on ONE interpreter: 1-4 earlier runs, each a program whose state lives in nested scopes (wrappers drawn from: block, function call, arrow call, method call, constructor, try/finally, try/catch-rethrow, generator body, for / for-of body, switch case, native callback; nesting depth 1-8) run as script or as module, ended by completion, by an uncaught error thrown at the innermost level, or by abandonment after a tape-chosen number of steps (then replaced by the next prepare); followed by observer programs: typeof of every name the dead runs declared inside their nesting (and, for module runs, at module top level), fresh let-declarations reusing those names, and a random progen program. Oracle: every observer outcome equals the outcome on a FRESH interpreter that only executed the deliberate global writes; call_depth()==0 and the H4 quiescence snapshot is clean (global environment, no env guards, empty call stack, no active VM, empty order/wait bookkeeping) after every ended or replaced run. Non-trivial: a run died at nesting depth >= 2 or was abandoned inside a call. Distinct = distinct history.".into()
    }
    fn assumptions(&self) -> Vec<String> {
        vec!["top-level declarations of earlier SCRIPT runs are deliberate effects on global state (observers avoid those names); module-level declarations are not".into()]
    }
    fn plan(&self, tier: Tier) -> Plan {
        Plan { shards: 16, cases_per_shard: tier.pick(700, 30000), tape_len: tier.pick(600, 1200), watchdog_s: tier.pick(900, 7200) }
    }
    fn generate(&self, tape: &mut Tape, ctx: &Ctx) -> Value {
        let gates = ctx.gates.only_prefixed("C11:");
        let k = 1 + tape.below(4);
        let mut runs = vec![];
        let mut inner_names: Vec<String> = vec![];
        let mut module_top_names: Vec<String> = vec![];
        let mut tags: Vec<String> = vec![];
        let mut excluded = 0u64;
        for idx in 0..k {
            let (src, names, t, d) = gen_dead_run(tape, idx, &gates, &mut excluded);
            let as_module = tape.chance(1, 3);
            if as_module && gates.excluded("C11:module-run") {
                excluded += 1;
            }
            let as_module = as_module && !gates.excluded("C11:module-run");
            let abandon = if tape.chance(1, 3) { Some(1 + tape.below(3000) as u64) } else { None };
            if abandon.is_some() && gates.excluded("C11:abandoned-run") {
                excluded += 1;
            }
            let abandon = if gates.excluded("C11:abandoned-run") { None } else { abandon };
            inner_names.extend(names);
            if as_module {
                module_top_names.push(format!("top{}", idx));
                module_top_names.push(format!("ctop{}", idx));
                module_top_names.push(format!("ftop{}", idx));
            }
            tags.extend(t);
            tags.push(d);
            tags.push(if as_module { "run:module".into() } else { "run:script".into() });
            if abandon.is_some() {
                tags.push("end:abandon".into());
            }
            runs.push(json!({"src": src, "module": as_module, "abandon_after": abandon}));
        }
        // observers
        let mut obs: Vec<String> = vec![];
        let all: Vec<String> = inner_names.iter().chain(module_top_names.iter()).cloned().collect();
        let typeofs: Vec<String> = all.iter().map(|n| format!("typeof {}", n)).collect();
        obs.push(format!("[{}].join(\",\")", typeofs.join(", ")));
        let decls: Vec<String> = all.iter().filter(|n| *n != "spin").take(6).map(|n| format!("let {} = \"fresh\";", n)).collect();
        obs.push(format!("{} [{}].join(\",\")", decls.join(" "), all.iter().filter(|n| *n != "spin").take(6).cloned().collect::<Vec<_>>().join(", ")));
        let p = gen_script(tape, &crate::findings::Gates::none(), Config::full(8));
        obs.push(p.js());
        json!({"runs": runs, "observers": obs, "tags": tags, "excluded": excluded})
    }
    fn execute(&self, case: &Value, _ctx: &mut Ctx) -> Exec {
        let runs = case["runs"].as_array().cloned().unwrap_or_default();
        let observers: Vec<String> = case["observers"].as_array().map(|a| a.iter().map(|x| x.as_str().unwrap_or("").to_string()).collect()).unwrap_or_default();
        let tags: Vec<String> = case["tags"].as_array().map(|a| a.iter().filter_map(|x| x.as_str().map(|s| s.to_string())).collect()).unwrap_or_default();
        reset_hooks();
        let r = guarded(|| {
            let log = Rc::new(RefCell::new(Vec::new()));
            let mut s = Session { interp: new_interp(&log), log };
            let mut problems: Vec<String> = vec![];
            let mut ends: Vec<String> = vec![];
            let mut deep = false;
            for (i, run) in runs.iter().enumerate() {
                let src = run["src"].as_str().unwrap_or("");
                let path = if run["module"].as_bool() == Some(true) { Some(format!("/m{}.ts", i)) } else { None };
                let abandon = run["abandon_after"].as_u64();
                tsrun::verif_hooks::vm_instr_set_limit(20_000_000);
                tsrun::verif_hooks::vm_instr_reset();
                let (end, steps) = run_to_end(&mut s.interp, src, path.as_deref(), abandon);
                tsrun::verif_hooks::vm_instr_set_limit(0);
                s.log.borrow_mut().clear();
                if end == "abandoned" && s.interp.call_depth() >= 1 {
                    deep = true;
                }
                if end.starts_with("error:") && src.matches("let n").count() >= 2 {
                    deep = true;
                }
                let abandoned = end == "abandoned";
                ends.push(format!("{}@{}", end.chars().take(40).collect::<String>(), steps));
                if !abandoned {
                    // an ENDED run must leave the interpreter quiescent
                    let q = s.interp.verif_quiescence();
                    let mut bad = vec![];
                    if s.interp.call_depth() != 0 {
                        bad.push(format!("call_depth={}", s.interp.call_depth()));
                    }
                    if !q.env_is_global {
                        bad.push("env-not-global".into());
                    }
                    if q.env_guards != 0 {
                        bad.push(format!("env_guards={}", q.env_guards));
                    }
                    if q.call_stack != 0 {
                        bad.push(format!("call_stack={}", q.call_stack));
                    }
                    if q.active_vm {
                        bad.push("active_vm".into());
                    }
                    if q.pending_orders != 0 || q.cancelled_orders != 0 || q.order_responses != 0 || q.suspended_for_order || q.wait_contexts != 0 || q.ready_queue != 0 || q.pending_program || q.pending_module_sources != 0 {
                        bad.push("async/module bookkeeping left".into());
                    }
                    if !bad.is_empty() {
                        problems.push(format!("after run {} ({}): {}", i, end.chars().take(30).collect::<String>(), bad.join(" ")));
                    }
                }
            }
            // the deliberate global effect of the earlier runs (a run may have been abandoned right after
            // performing it): read it back once; the fresh interpreter is given the same value
            let (mark_end, _) = run_to_end(&mut s.interp, "String(globalThis.__done)", None, None);
            let completed_marks: u64 = mark_end.strip_prefix("complete:str:").and_then(|v| v.parse().ok()).unwrap_or(0);
            // observers on the used interpreter
            let mut used: Vec<String> = vec![];
            let mut used_q: Vec<String> = vec![];
            for (k, o) in observers.iter().enumerate() {
                s.log.borrow_mut().clear();
                let (end, _) = run_to_end(&mut s.interp, o, None, None);
                used.push(format!("{}|{}", end, s.log.borrow().join("\u{1}")));
                // a replaced (abandoned) run must be gone once the next run has been prepared and ended:
                // compared below with the snapshot of the fresh interpreter after the same observer
                let q = s.interp.verif_quiescence();
                used_q.push(format!("observer {}: call_depth={} env_is_global={} env_guards={} call_stack={} active_vm={}", k, s.interp.call_depth(), q.env_is_global, q.env_guards, q.call_stack, q.active_vm));
            }
            // the same observers on a fresh interpreter that only saw the deliberate global writes
            let log2 = Rc::new(RefCell::new(Vec::new()));
            let mut f = Session { interp: new_interp(&log2), log: log2 };
            if completed_marks > 0 {
                let _ = run_to_end(&mut f.interp, &format!("globalThis.__done = {};", completed_marks), None, None);
            }
            // script-level declarations of earlier script runs are deliberate global effects: replay them
            for (i, run) in runs.iter().enumerate() {
                if run["module"].as_bool() != Some(true) {
                    // only if the run got past its first statement (declarations execute first)
                    let started = ends.get(i).map(|e| !e.ends_with("@0") || !e.starts_with("abandoned")).unwrap_or(true);
                    if started {
                        let _ = run_to_end(&mut f.interp, &format!("let top{i} = \"t\"; const ctop{i} = 1; function ftop{i}() {{ return 1; }}", i = i), None, None);
                    }
                }
            }
            let mut fresh: Vec<String> = vec![];
            let mut fresh_q: Vec<String> = vec![];
            for (k, o) in observers.iter().enumerate() {
                f.log.borrow_mut().clear();
                let (end, _) = run_to_end(&mut f.interp, o, None, None);
                fresh.push(format!("{}|{}", end, f.log.borrow().join("\u{1}")));
                let q = f.interp.verif_quiescence();
                fresh_q.push(format!("observer {}: call_depth={} env_is_global={} env_guards={} call_stack={} active_vm={}", k, f.interp.call_depth(), q.env_is_global, q.env_guards, q.call_stack, q.active_vm));
            }
            for (u, fr) in used_q.iter().zip(fresh_q.iter()) {
                if u != fr {
                    problems.push(format!("bookkeeping after {} (fresh interpreter: {})", u, fr));
                }
            }
            for (k, (u, fr)) in used.iter().zip(fresh.iter()).enumerate() {
                if u != fr {
                    problems.push(format!("observer {} differs: used={:?} fresh={:?}", k, u.chars().take(160).collect::<String>(), fr.chars().take(160).collect::<String>()));
                }
            }
            (problems, ends, deep)
        });
        tsrun::verif_hooks::vm_instr_set_limit(0);
        let (problems, ends, deep) = match r {
            Ok(x) => x,
            Err(p) => {
                if p.contains("verif: vm work limit") {
                    return Exec::discard("budget");
                }
                return Exec::discard(format!("panic (C06 business): {}", p.chars().take(100).collect::<String>()));
            }
        };
        if ends.iter().any(|e| e.starts_with("budget")) {
            return Exec::discard("budget");
        }
        if let Some(first) = problems.first() {
            let class: String = first.chars().filter(|c| !c.is_ascii_digit()).take(70).collect();
            let mut e = Exec::fail(format!("c11:{}", class), format!("state of earlier runs leaks: {:?} (ends: {:?})", problems, ends));
            e.observed = json!({"problems": problems, "ends": ends});
            e.tags = tags;
            return e;
        }
        let mut e = Exec::pass(deep);
        e.tags = tags;
        e.counters = vec![("excluded_by_gate".into(), case["excluded"].as_u64().unwrap_or(0))];
        e.observed = json!({"ends": ends});
        e
    }
}
