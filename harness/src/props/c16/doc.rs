//! C16 document model: an independent strict JSON parser (exact numbers through Rust's
//! `str::parse::<f64>`), comparison (objects unordered, arrays ordered, numbers bit-exact modulo an
//! optional zero-sign allowance), the tagged case encoding and serde_json conversions.

use serde_json::{json, Value};
use std::collections::HashMap;

#[derive(Clone, Debug)]
pub enum Doc {
    Null,
    Bool(bool),
    Num(f64),
    Str(String),
    Arr(Vec<Doc>),
    /// unique keys (duplicates already resolved, last wins)
    Obj(Vec<(String, Doc)>),
}

impl Doc {
    pub fn depth(&self) -> usize {
        // iterative to be safe on very deep documents
        let mut max = 0usize;
        let mut stack: Vec<(&Doc, usize)> = vec![(self, 0)];
        while let Some((d, lvl)) = stack.pop() {
            match d {
                Doc::Arr(a) => {
                    max = max.max(lvl + 1);
                    for x in a {
                        stack.push((x, lvl + 1));
                    }
                }
                Doc::Obj(o) => {
                    max = max.max(lvl + 1);
                    for (_, x) in o {
                        stack.push((x, lvl + 1));
                    }
                }
                _ => {}
            }
        }
        max
    }
}

// ---------------------------------------------------------------------------------------------
// strict RFC 8259 parser
// ---------------------------------------------------------------------------------------------
pub struct P<'a> {
    b: &'a [u8],
    s: &'a str,
    i: usize,
}

pub fn parse_json(text: &str) -> Result<Doc, String> {
    let mut p = P { b: text.as_bytes(), s: text, i: 0 };
    p.ws();
    let v = p.value()?;
    p.ws();
    if p.i != p.b.len() {
        return Err(format!("trailing characters at byte {}", p.i));
    }
    Ok(v)
}

impl<'a> P<'a> {
    fn ws(&mut self) {
        while self.i < self.b.len() && matches!(self.b[self.i], b' ' | b'\t' | b'\n' | b'\r') {
            self.i += 1;
        }
    }
    fn lit(&mut self, w: &str, d: Doc) -> Result<Doc, String> {
        if self.s[self.i..].starts_with(w) {
            self.i += w.len();
            Ok(d)
        } else {
            Err(format!("bad literal at byte {}", self.i))
        }
    }
    fn value(&mut self) -> Result<Doc, String> {
        if self.i >= self.b.len() {
            return Err("unexpected end".into());
        }
        match self.b[self.i] {
            b'n' => self.lit("null", Doc::Null),
            b't' => self.lit("true", Doc::Bool(true)),
            b'f' => self.lit("false", Doc::Bool(false)),
            b'"' => Ok(Doc::Str(self.string()?)),
            b'[' => {
                self.i += 1;
                let mut v = Vec::new();
                self.ws();
                if self.i < self.b.len() && self.b[self.i] == b']' {
                    self.i += 1;
                    return Ok(Doc::Arr(v));
                }
                loop {
                    self.ws();
                    v.push(self.value()?);
                    self.ws();
                    match self.b.get(self.i) {
                        Some(b',') => self.i += 1,
                        Some(b']') => {
                            self.i += 1;
                            return Ok(Doc::Arr(v));
                        }
                        _ => return Err(format!("expected , or ] at byte {}", self.i)),
                    }
                }
            }
            b'{' => {
                self.i += 1;
                let mut v: Vec<(String, Doc)> = Vec::new();
                let mut idx: HashMap<String, usize> = HashMap::new();
                self.ws();
                if self.i < self.b.len() && self.b[self.i] == b'}' {
                    self.i += 1;
                    return Ok(Doc::Obj(v));
                }
                loop {
                    self.ws();
                    if self.b.get(self.i) != Some(&b'"') {
                        return Err(format!("expected key at byte {}", self.i));
                    }
                    let k = self.string()?;
                    self.ws();
                    if self.b.get(self.i) != Some(&b':') {
                        return Err(format!("expected : at byte {}", self.i));
                    }
                    self.i += 1;
                    self.ws();
                    let val = self.value()?;
                    match idx.get(&k) {
                        Some(&at) => v[at].1 = val,
                        None => {
                            idx.insert(k.clone(), v.len());
                            v.push((k, val));
                        }
                    }
                    self.ws();
                    match self.b.get(self.i) {
                        Some(b',') => self.i += 1,
                        Some(b'}') => {
                            self.i += 1;
                            return Ok(Doc::Obj(v));
                        }
                        _ => return Err(format!("expected , or }} at byte {}", self.i)),
                    }
                }
            }
            b'-' | b'0'..=b'9' => {
                let st = self.i;
                let end = scan_number(self.b, st).ok_or_else(|| format!("bad number at byte {}", st))?;
                self.i = end;
                let tok = &self.s[st..end];
                let f: f64 = tok.parse().map_err(|_| format!("unparsable number {}", tok))?;
                Ok(Doc::Num(f))
            }
            c => Err(format!("unexpected byte 0x{:02x} at {}", c, self.i)),
        }
    }
    fn hex4(&mut self) -> Result<u32, String> {
        if self.i + 4 > self.b.len() {
            return Err("short \\u escape".into());
        }
        let mut v = 0u32;
        for k in 0..4 {
            let c = self.b[self.i + k];
            let d = match c {
                b'0'..=b'9' => c - b'0',
                b'a'..=b'f' => c - b'a' + 10,
                b'A'..=b'F' => c - b'A' + 10,
                _ => return Err(format!("bad hex digit at byte {}", self.i + k)),
            };
            v = v * 16 + d as u32;
        }
        self.i += 4;
        Ok(v)
    }
    fn string(&mut self) -> Result<String, String> {
        // at opening quote
        self.i += 1;
        let mut out = String::new();
        loop {
            let st = self.i;
            while self.i < self.b.len() && self.b[self.i] != b'"' && self.b[self.i] != b'\\' && self.b[self.i] >= 0x20 {
                self.i += 1;
            }
            out.push_str(&self.s[st..self.i]);
            match self.b.get(self.i) {
                None => return Err("unterminated string".into()),
                Some(b'"') => {
                    self.i += 1;
                    return Ok(out);
                }
                Some(b'\\') => {
                    self.i += 1;
                    let c = *self.b.get(self.i).ok_or("unterminated escape")?;
                    self.i += 1;
                    match c {
                        b'"' => out.push('"'),
                        b'\\' => out.push('\\'),
                        b'/' => out.push('/'),
                        b'b' => out.push('\u{8}'),
                        b'f' => out.push('\u{c}'),
                        b'n' => out.push('\n'),
                        b'r' => out.push('\r'),
                        b't' => out.push('\t'),
                        b'u' => {
                            let u = self.hex4()?;
                            if (0xD800..0xDC00).contains(&u) {
                                if self.b.get(self.i) == Some(&b'\\') && self.b.get(self.i + 1) == Some(&b'u') {
                                    self.i += 2;
                                    let lo = self.hex4()?;
                                    if !(0xDC00..0xE000).contains(&lo) {
                                        return Err("lone surrogate".into());
                                    }
                                    let cp = 0x10000 + ((u - 0xD800) << 10) + (lo - 0xDC00);
                                    out.push(char::from_u32(cp).ok_or("bad pair")?);
                                } else {
                                    return Err("lone surrogate".into());
                                }
                            } else if (0xDC00..0xE000).contains(&u) {
                                return Err("lone surrogate".into());
                            } else {
                                out.push(char::from_u32(u).ok_or("bad scalar")?);
                            }
                        }
                        _ => return Err(format!("bad escape at byte {}", self.i - 1)),
                    }
                }
                Some(_) => return Err(format!("raw control character at byte {}", self.i)),
            }
        }
    }
}

/// JSON number grammar; returns the end offset.
pub fn scan_number(b: &[u8], st: usize) -> Option<usize> {
    let mut i = st;
    if b.get(i) == Some(&b'-') {
        i += 1;
    }
    match b.get(i) {
        Some(b'0') => i += 1,
        Some(b'1'..=b'9') => {
            while matches!(b.get(i), Some(b'0'..=b'9')) {
                i += 1;
            }
        }
        _ => return None,
    }
    if b.get(i) == Some(&b'.') {
        i += 1;
        if !matches!(b.get(i), Some(b'0'..=b'9')) {
            return None;
        }
        while matches!(b.get(i), Some(b'0'..=b'9')) {
            i += 1;
        }
    }
    if matches!(b.get(i), Some(b'e' | b'E')) {
        i += 1;
        if matches!(b.get(i), Some(b'+' | b'-')) {
            i += 1;
        }
        if !matches!(b.get(i), Some(b'0'..=b'9')) {
            return None;
        }
        while matches!(b.get(i), Some(b'0'..=b'9')) {
            i += 1;
        }
    }
    Some(i)
}

/// Token spans of a VALID JSON text: (kind, start, end); kinds: b's' string, b'n' number,
/// b'l' literal, or the punctuation byte itself.
pub fn tokens(text: &str) -> Vec<(u8, usize, usize)> {
    let b = text.as_bytes();
    let mut out = vec![];
    let mut i = 0;
    while i < b.len() {
        match b[i] {
            b' ' | b'\t' | b'\n' | b'\r' => i += 1,
            b'"' => {
                let st = i;
                i += 1;
                while i < b.len() && b[i] != b'"' {
                    if b[i] == b'\\' {
                        i += 1;
                    }
                    i += 1;
                }
                i = (i + 1).min(b.len());
                out.push((b's', st, i));
            }
            b'-' | b'0'..=b'9' => {
                let st = i;
                i = scan_number(b, st).unwrap_or(i + 1);
                out.push((b'n', st, i));
            }
            b'a'..=b'z' => {
                let st = i;
                while i < b.len() && b[i].is_ascii_lowercase() {
                    i += 1;
                }
                out.push((b'l', st, i));
            }
            c => {
                out.push((c, i, i + 1));
                i += 1;
            }
        }
    }
    out
}

// ---------------------------------------------------------------------------------------------
// comparison
// ---------------------------------------------------------------------------------------------
pub fn num_eq(a: f64, b: f64, strict_zero: bool) -> bool {
    if a == 0.0 && b == 0.0 && !strict_zero {
        return true;
    }
    a.to_bits() == b.to_bits()
}

pub fn fmt_num(x: f64) -> String {
    format!("{} (bits {:016x})", crate::engine::fmt_f64(x), x.to_bits())
}

pub fn show_str(s: &str) -> String {
    let mut o = String::from("\"");
    for (n, c) in s.chars().enumerate() {
        if n >= 48 {
            o.push('…');
            break;
        }
        if c.is_ascii_graphic() || c == ' ' {
            o.push(c);
        } else {
            o.push_str(&format!("\\u{{{:x}}}", c as u32));
        }
    }
    o.push('"');
    o
}

pub fn first_str_diff(a: &str, b: &str) -> String {
    let (mut ia, mut ib) = (a.chars(), b.chars());
    let mut n = 0;
    loop {
        match (ia.next(), ib.next()) {
            (Some(x), Some(y)) if x == y => n += 1,
            (x, y) => {
                return format!(
                    "char #{}: expected {} got {} (lengths {} vs {} chars)",
                    n,
                    x.map(|c| format!("U+{:04X}", c as u32)).unwrap_or("<end>".into()),
                    y.map(|c| format!("U+{:04X}", c as u32)).unwrap_or("<end>".into()),
                    a.chars().count(),
                    b.chars().count()
                )
            }
        }
    }
}

/// A difference: (class, path, detail). Class is a short stable word used in signatures.
pub type Diff = (String, String, String);

fn kind(d: &Doc) -> &'static str {
    match d {
        Doc::Null => "null",
        Doc::Bool(_) => "boolean",
        Doc::Num(_) => "number",
        Doc::Str(_) => "string",
        Doc::Arr(_) => "array",
        Doc::Obj(_) => "object",
    }
}

pub fn key_class(k: &str) -> &'static str {
    if k == "__proto__" {
        return "proto-key";
    }
    if let Ok(i) = k.parse::<u32>() {
        if i.to_string() == k {
            return "index-key";
        }
    }
    "key"
}

pub fn doc_diff(exp: &Doc, got: &Doc, strict_zero: bool) -> Option<Diff> {
    // explicit stack: (expected, got, path)
    let mut stack: Vec<(&Doc, &Doc, String)> = vec![(exp, got, "$".to_string())];
    while let Some((e, g, path)) = stack.pop() {
        match (e, g) {
            (Doc::Null, Doc::Null) => {}
            (Doc::Bool(a), Doc::Bool(b)) if a == b => {}
            (Doc::Num(a), Doc::Num(b)) => {
                if !num_eq(*a, *b, strict_zero) {
                    let class = if *a == 0.0 && *b == 0.0 { "zero-sign" } else { "number" };
                    return Some((class.into(), path, format!("expected {} got {}", fmt_num(*a), fmt_num(*b))));
                }
            }
            (Doc::Str(a), Doc::Str(b)) => {
                if a != b {
                    return Some(("string".into(), path, first_str_diff(a, b)));
                }
            }
            (Doc::Arr(a), Doc::Arr(b)) => {
                if a.len() != b.len() {
                    return Some(("array-length".into(), path, format!("expected {} elements got {}", a.len(), b.len())));
                }
                let deep = path.len() > 4000;
                for (i, (x, y)) in a.iter().zip(b.iter()).enumerate().rev() {
                    stack.push((x, y, if deep { path.clone() } else { format!("{}[{}]", path, i) }));
                }
            }
            (Doc::Obj(a), Doc::Obj(b)) => {
                let mut m: HashMap<&str, &Doc> = HashMap::new();
                for (k, v) in b {
                    if m.insert(k.as_str(), v).is_some() {
                        return Some(("duplicate-key".into(), path, format!("key {} occurs twice", show_str(k))));
                    }
                }
                for (k, _) in a {
                    if !m.contains_key(k.as_str()) {
                        return Some((format!("missing-{}", key_class(k)), path, format!("key {} missing", show_str(k))));
                    }
                }
                if a.len() != b.len() {
                    let have: std::collections::HashSet<&str> = a.iter().map(|(k, _)| k.as_str()).collect();
                    let extra = b.iter().find(|(k, _)| !have.contains(k.as_str())).map(|(k, _)| k.as_str()).unwrap_or("");
                    return Some(("extra-key".into(), path, format!("unexpected key {}", show_str(extra))));
                }
                let deep = path.len() > 4000;
                for (k, x) in a.iter().rev() {
                    let y = m[k.as_str()];
                    stack.push((x, y, if deep { path.clone() } else { format!("{}.{}", path, show_str(k)) }));
                }
            }
            (e, g) => {
                return Some(("kind".into(), path, format!("expected {} got {}", kind(e), kind(g))));
            }
        }
    }
    None
}

// ---------------------------------------------------------------------------------------------
// case encoding (numbers as bit patterns so that no JSON number parser sits between the
// generator and the oracle)
// ---------------------------------------------------------------------------------------------
pub fn to_case(d: &Doc) -> Value {
    match d {
        Doc::Null => Value::Null,
        Doc::Bool(b) => Value::Bool(*b),
        Doc::Num(x) => json!({"n": format!("{:016x}", x.to_bits()), "~": crate::engine::fmt_f64(*x)}),
        Doc::Str(s) => json!({"s": s}),
        Doc::Arr(a) => json!({"a": a.iter().map(to_case).collect::<Vec<_>>()}),
        Doc::Obj(o) => json!({"o": o.iter().map(|(k, v)| json!([k, to_case(v)])).collect::<Vec<_>>()}),
    }
}

pub fn from_case(v: &Value) -> Option<Doc> {
    Some(match v {
        Value::Null => Doc::Null,
        Value::Bool(b) => Doc::Bool(*b),
        Value::Object(m) => {
            if let Some(h) = m.get("n").and_then(|x| x.as_str()) {
                Doc::Num(f64::from_bits(u64::from_str_radix(h, 16).ok()?))
            } else if let Some(s) = m.get("s").and_then(|x| x.as_str()) {
                Doc::Str(s.to_string())
            } else if let Some(a) = m.get("a").and_then(|x| x.as_array()) {
                Doc::Arr(a.iter().map(from_case).collect::<Option<Vec<_>>>()?)
            } else if let Some(o) = m.get("o").and_then(|x| x.as_array()) {
                let mut out = vec![];
                for kv in o {
                    let k = kv.get(0)?.as_str()?.to_string();
                    out.push((k, from_case(kv.get(1)?)?));
                }
                Doc::Obj(out)
            } else {
                return None;
            }
        }
        _ => return None,
    })
}

// ---------------------------------------------------------------------------------------------
// serde_json conversions (host side of create_from_json / js_value_to_json)
// ---------------------------------------------------------------------------------------------
pub fn to_serde(d: &Doc, ints_as_int: bool) -> Value {
    match d {
        Doc::Null => Value::Null,
        Doc::Bool(b) => Value::Bool(*b),
        Doc::Num(x) => {
            let x = *x;
            if ints_as_int && x.fract() == 0.0 && x.abs() < 9.0e18 && !(x == 0.0 && x.is_sign_negative()) {
                Value::Number(serde_json::Number::from(x as i64))
            } else {
                serde_json::Number::from_f64(x).map(Value::Number).unwrap_or(Value::Null)
            }
        }
        Doc::Str(s) => Value::String(s.clone()),
        Doc::Arr(a) => Value::Array(a.iter().map(|x| to_serde(x, ints_as_int)).collect()),
        Doc::Obj(o) => Value::Object(o.iter().map(|(k, v)| (k.clone(), to_serde(v, ints_as_int))).collect()),
    }
}

pub fn from_serde(v: &Value) -> Doc {
    match v {
        Value::Null => Doc::Null,
        Value::Bool(b) => Doc::Bool(*b),
        Value::Number(n) => Doc::Num(n.as_f64().unwrap_or(f64::NAN)),
        Value::String(s) => Doc::Str(s.clone()),
        Value::Array(a) => Doc::Arr(a.iter().map(from_serde).collect()),
        Value::Object(m) => Doc::Obj(m.iter().map(|(k, v)| (k.clone(), from_serde(v))).collect()),
    }
}

/// Minimal JSON text of a document (only mandatory escapes, shortest numbers).
pub fn to_text_min(d: &Doc, out: &mut String) {
    match d {
        Doc::Null => out.push_str("null"),
        Doc::Bool(b) => out.push_str(if *b { "true" } else { "false" }),
        Doc::Num(x) => out.push_str(&num_token_shortest(*x)),
        Doc::Str(s) => str_min(s, out),
        Doc::Arr(a) => {
            out.push('[');
            for (i, x) in a.iter().enumerate() {
                if i > 0 {
                    out.push(',');
                }
                to_text_min(x, out);
            }
            out.push(']');
        }
        Doc::Obj(o) => {
            out.push('{');
            for (i, (k, x)) in o.iter().enumerate() {
                if i > 0 {
                    out.push(',');
                }
                str_min(k, out);
                out.push(':');
                to_text_min(x, out);
            }
            out.push('}');
        }
    }
}

pub fn str_min(s: &str, out: &mut String) {
    out.push('"');
    for c in s.chars() {
        match c {
            '"' => out.push_str("\\\""),
            '\\' => out.push_str("\\\\"),
            c if (c as u32) < 0x20 => out.push_str(&format!("\\u{:04x}", c as u32)),
            c => out.push(c),
        }
    }
    out.push('"');
}

/// `\uXXXX` for every character (surrogate pairs for astral ones)
pub fn str_all_escaped(s: &str, upper: bool, out: &mut String) {
    out.push('"');
    let mut buf = [0u16; 2];
    for c in s.chars() {
        for u in c.encode_utf16(&mut buf) {
            if upper {
                out.push_str(&format!("\\u{:04X}", u));
            } else {
                out.push_str(&format!("\\u{:04x}", u));
            }
        }
    }
    out.push('"');
}

pub fn num_token_shortest(x: f64) -> String {
    if x == 0.0 {
        return if x.is_sign_negative() { "-0".into() } else { "0".into() };
    }
    if x.fract() == 0.0 && x.abs() < 1e15 {
        return format!("{}", x as i64);
    }
    let mut b = ryu::Buffer::new();
    b.format_finite(x).to_string()
}
