//! C16 value graphs: small generated JS programs that build a value (acyclic with everything
//! JSON cannot carry, or cyclic), and the JSON the ES serialisation rules prescribe for it
//! (SerializeJSONProperty / SerializeJSONObject / SerializeJSONArray written from the spec text).

use super::doc::Doc;
use super::gen::Feat;
use crate::tape::Tape;

#[derive(Clone, Debug)]
pub enum Key {
    Ident(String),
    Quoted(String),
    Numeric(u32),
    Computed(String),
}
impl Key {
    pub fn name(&self) -> String {
        match self {
            Key::Ident(s) | Key::Quoted(s) | Key::Computed(s) => s.clone(),
            Key::Numeric(n) => n.to_string(),
        }
    }
}

#[derive(Clone, Debug)]
pub enum Prop {
    Data(Key, G),
    Getter(String, G),
    Method(String),
    SymKey(G),
}

#[derive(Clone, Debug)]
pub enum G {
    Undef,
    Null,
    Bool(bool),
    Num(f64),
    Str(String),
    Func(u8),
    Sym,
    Date(f64),
    Map(Vec<G>),
    Set(Vec<G>),
    WrapNum(f64),
    WrapStr(String),
    WrapBool(bool),
    WrapSym,
    Arr(Vec<Option<G>>),
    Obj(Vec<Prop>),
    ToJson(Box<G>, Vec<Prop>),
    ToJsonKey,
    ClassInst(Vec<(String, G)>),
    Inherit(Vec<(String, G)>),
    NonEnum(Vec<(String, G)>),
    ArrExtra(Vec<G>),
    Ref(usize),
}

pub const GATE_TOJSON: &str = "stringify:user-toJSON";
pub const GATE_GETTER: &str = "stringify:getter";

const NUMS: [f64; 20] = [
    0.0, 1.0, -1.0, 42.0, 0.5, -2.5, 1e21, 1e-7, 9007199254740992.0, -9007199254740992.0, 0.1, 1.5e300, 5e-324, f64::MAX, 4294967296.0, 123456789.0, f64::NAN, f64::INFINITY,
    f64::NEG_INFINITY, -0.0,
];
const STRS: [&str; 15] = ["", "a", "hello world", "\"q\"", "back\\slash", "line\nbreak", "tab\t", "nul\u{0}x", "é", "中文", "😀", "\u{2028}", "</script>", "0", "\u{1f}\u{7f}"];
const DATES: [f64; 16] = [
    0.0, 1.0, -1.0, 999.0, 1e12, 1_700_000_000_000.0, 951_782_400_000.0, -62_167_219_200_000.0, -62_167_219_200_001.0, 253_402_300_799_999.0, 253_402_300_800_000.0, 8.64e15, -8.64e15,
    f64::NAN, 86_400_000.0, 1234567890123.0,
];
// (time values beyond ±8.64e15 are not generated: whether `new Date(x)` clips them is a property of
// the Date constructor, not of the JSON boundary)
const IDENTS: [&str; 8] = ["a", "b", "c", "name", "x", "list", "value", "k"];

pub struct GCtx<'g> {
    pub ndefs: usize,
    pub gates: &'g crate::findings::Gates,
    pub budget: usize,
}

fn gen_num(t: &mut Tape) -> f64 {
    if t.chance(1, 3) { NUMS[t.below(NUMS.len())] } else { t.range(-5, 20) as f64 }
}

fn gen_key(t: &mut Tape, used: &mut Vec<String>, i: usize) -> Key {
    let k = match t.weighted(&[5, 2, 2, 1]) {
        0 => Key::Ident(IDENTS[t.below(IDENTS.len())].to_string()),
        1 => Key::Quoted((*t.pick(&["0", "1", "2", "a b", "", "01", "-0", "length", "constructor", "é", "4294967295", "\"", "toString"])).to_string()),
        2 => Key::Numeric(*t.pick(&[0u32, 1, 2, 7, 10, 4294967295])),
        _ => Key::Computed((*t.pick(&["c", "dyn", "0", "x y"])).to_string()),
    };
    if used.contains(&k.name()) {
        let n = format!("p{}", i);
        used.push(n.clone());
        return Key::Ident(n);
    }
    used.push(k.name());
    k
}

fn gen_named(t: &mut Tape, c: &mut GCtx, depth: usize, f: &mut Feat) -> Vec<(String, G)> {
    let n = t.range(0, 3) as usize;
    (0..n).map(|i| (format!("{}{}", IDENTS[t.below(IDENTS.len())], i), gen_g(t, c, depth.saturating_sub(1), f))).collect()
}

fn gen_props(t: &mut Tape, c: &mut GCtx, depth: usize, f: &mut Feat) -> Vec<Prop> {
    let n = t.range(0, 5) as usize;
    let mut used: Vec<String> = vec![];
    let mut out = vec![];
    for i in 0..n {
        match t.weighted(&[12, 1, 1, 1]) {
            0 => {
                let k = gen_key(t, &mut used, i);
                if super::doc::key_class(&k.name()) == "index-key" {
                    f.tag("graph:index-key");
                    f.special = true;
                }
                out.push(Prop::Data(k, gen_g(t, c, depth.saturating_sub(1), f)));
            }
            1 => {
                if c.gates.excluded(GATE_GETTER) {
                    f.exclude(GATE_GETTER);
                } else {
                    f.tag("graph:getter");
                    let name = format!("g{}", i);
                    used.push(name.clone());
                    out.push(Prop::Getter(name, gen_g(t, c, depth.saturating_sub(1), f)));
                }
            }
            2 => {
                f.tag("graph:method");
                let name = format!("m{}", i);
                used.push(name.clone());
                out.push(Prop::Method(name));
            }
            _ => {
                f.tag("graph:symbol-key");
                out.push(Prop::SymKey(gen_g(t, c, 0, f)));
            }
        }
    }
    out
}

pub fn gen_g(t: &mut Tape, c: &mut GCtx, depth: usize, f: &mut Feat) -> G {
    c.budget = c.budget.saturating_sub(1);
    let containers = depth > 0 && c.budget > 0;
    // scalars first (simple), then special leaves, then containers
    let w: [u32; 22] = [
        2, 2, 2, 5, 4, 2, 1, 2, 2, 2, 2, 1, 1, // leaves: undef null bool num str func sym date map set wrapnum wrapstr wrapbool
        1, // wrapsym
        if containers { 6 } else { 0 }, // arr
        if containers { 8 } else { 0 }, // obj
        if containers { 2 } else { 0 }, // toJSON
        1, // toJSON(key)
        if containers { 1 } else { 0 }, // class instance
        if containers { 1 } else { 0 }, // inherit / nonenum / arrextra
        if c.ndefs > 0 { 3 } else { 0 }, // ref
        0,
    ];
    match t.weighted(&w) {
        0 => {
            f.tag("graph:undefined");
            G::Undef
        }
        1 => G::Null,
        2 => G::Bool(t.chance(1, 2)),
        3 => {
            let x = gen_num(t);
            if !x.is_finite() {
                f.tag("graph:non-finite");
                f.special = true;
            }
            G::Num(x)
        }
        4 => G::Str(STRS[t.below(STRS.len())].to_string()),
        5 => {
            f.tag("graph:function");
            G::Func(t.below(3) as u8)
        }
        6 => {
            f.tag("graph:symbol");
            G::Sym
        }
        7 => {
            f.tag("graph:date");
            f.special = true;
            G::Date(if t.chance(1, 2) { DATES[t.below(DATES.len())] } else { (t.range(-4_000_000, 4_000_000) as f64) * 1e6 + t.range(0, 999) as f64 })
        }
        8 => {
            f.tag("graph:map");
            let n = t.range(0, 2) as usize;
            G::Map((0..n).map(|_| gen_g(t, c, depth.saturating_sub(1).min(1), f)).collect())
        }
        9 => {
            f.tag("graph:set");
            let n = t.range(0, 2) as usize;
            G::Set((0..n).map(|_| gen_g(t, c, depth.saturating_sub(1).min(1), f)).collect())
        }
        10 => {
            f.tag("graph:wrapper");
            G::WrapNum(gen_num(t))
        }
        11 => {
            f.tag("graph:wrapper");
            G::WrapStr(STRS[t.below(STRS.len())].to_string())
        }
        12 => {
            f.tag("graph:wrapper");
            G::WrapBool(t.chance(1, 2))
        }
        13 => {
            f.tag("graph:wrapper-symbol");
            G::WrapSym
        }
        14 => {
            let n = t.range(0, 5) as usize;
            G::Arr(
                (0..n)
                    .map(|_| {
                        if t.chance(1, 8) {
                            f.tag("graph:hole");
                            f.special = true;
                            None
                        } else {
                            Some(gen_g(t, c, depth - 1, f))
                        }
                    })
                    .collect(),
            )
        }
        15 => G::Obj(gen_props(t, c, depth, f)),
        16 => {
            if c.gates.excluded(GATE_TOJSON) {
                f.exclude(GATE_TOJSON);
                G::Obj(gen_props(t, c, depth, f))
            } else {
                f.tag("graph:toJSON");
                f.special = true;
                let ret = match gen_g(t, c, depth - 1, f) {
                    // the result of toJSON is serialised without calling toJSON on it again
                    G::ToJson(..) | G::ToJsonKey | G::Date(_) | G::Ref(_) => G::Num(7.0),
                    g => g,
                };
                G::ToJson(Box::new(ret), gen_props(t, c, depth.saturating_sub(1), f))
            }
        }
        17 => {
            if c.gates.excluded(GATE_TOJSON) {
                f.exclude(GATE_TOJSON);
                G::Null
            } else {
                f.tag("graph:toJSON(key)");
                f.special = true;
                G::ToJsonKey
            }
        }
        18 => {
            f.tag("graph:class-instance");
            G::ClassInst(gen_named(t, c, depth, f))
        }
        19 => match t.below(3) {
            0 => {
                f.tag("graph:inherited");
                G::Inherit(gen_named(t, c, depth, f))
            }
            1 => {
                f.tag("graph:non-enumerable");
                G::NonEnum(gen_named(t, c, depth, f))
            }
            _ => {
                f.tag("graph:array-extra-prop");
                let n = t.range(0, 3) as usize;
                G::ArrExtra((0..n).map(|_| gen_g(t, c, depth - 1, f)).collect())
            }
        },
        _ => {
            f.tag("graph:shared-ref");
            f.special = true;
            G::Ref(t.below(c.ndefs))
        }
    }
}

// ---------------------------------------------------------------------------------------------
// JS rendering
// ---------------------------------------------------------------------------------------------
pub fn js_str(s: &str) -> String {
    let mut o = String::from("\"");
    for c in s.chars() {
        match c {
            '"' => o.push_str("\\\""),
            '\\' => o.push_str("\\\\"),
            '\n' => o.push_str("\\n"),
            '\r' => o.push_str("\\r"),
            '\t' => o.push_str("\\t"),
            c if (c as u32) < 0x20 || c as u32 == 0x7f || c as u32 == 0x2028 || c as u32 == 0x2029 => o.push_str(&format!("\\u{:04x}", c as u32)),
            c => o.push(c),
        }
    }
    o.push('"');
    o
}

pub fn js_num(x: f64) -> String {
    if x.is_nan() {
        "NaN".into()
    } else if x.is_infinite() {
        if x > 0.0 { "Infinity".into() } else { "-Infinity".into() }
    } else {
        super::doc::num_token_shortest(x)
    }
}

fn js_props(ps: &[Prop], defs: usize, out: &mut String) {
    for (i, p) in ps.iter().enumerate() {
        if i > 0 {
            out.push_str(", ");
        }
        match p {
            Prop::Data(k, g) => {
                match k {
                    Key::Ident(s) => out.push_str(s),
                    Key::Quoted(s) => out.push_str(&js_str(s)),
                    Key::Numeric(n) => out.push_str(&n.to_string()),
                    Key::Computed(s) => {
                        out.push('[');
                        out.push_str(&js_str(s));
                        out.push(']');
                    }
                }
                out.push_str(": ");
                js(g, defs, out);
            }
            Prop::Getter(n, g) => {
                out.push_str(&format!("get {}() {{ return ", n));
                js(g, defs, out);
                out.push_str("; }");
            }
            Prop::Method(n) => out.push_str(&format!("{}() {{ return 1; }}", n)),
            Prop::SymKey(g) => {
                out.push_str("[Symbol(\"k\")]: ");
                js(g, defs, out);
            }
        }
    }
}

fn js_assigns(var: &str, ps: &[(String, G)], defs: usize, out: &mut String) {
    for (k, g) in ps {
        out.push_str(&format!("{}.{} = ", var, k));
        js(g, defs, out);
        out.push_str("; ");
    }
}

pub fn js(g: &G, defs: usize, out: &mut String) {
    match g {
        G::Undef => out.push_str("undefined"),
        G::Null => out.push_str("null"),
        G::Bool(b) => out.push_str(if *b { "true" } else { "false" }),
        G::Num(x) => out.push_str(&js_num(*x)),
        G::Str(s) => out.push_str(&js_str(s)),
        G::Func(0) => out.push_str("function () { return 1; }"),
        G::Func(1) => out.push_str("(() => 1)"),
        G::Func(_) => out.push_str("Math.max"),
        G::Sym => out.push_str("Symbol(\"s\")"),
        G::Date(ts) => out.push_str(&format!("new Date({})", js_num(*ts))),
        G::Map(items) => {
            out.push_str("new Map([");
            for (i, it) in items.iter().enumerate() {
                if i > 0 {
                    out.push_str(", ");
                }
                out.push_str(&format!("[{}, ", i));
                js(it, defs, out);
                out.push(']');
            }
            out.push_str("])");
        }
        G::Set(items) => {
            out.push_str("new Set([");
            for (i, it) in items.iter().enumerate() {
                if i > 0 {
                    out.push_str(", ");
                }
                js(it, defs, out);
            }
            out.push_str("])");
        }
        G::WrapNum(x) => out.push_str(&format!("new Number({})", js_num(*x))),
        G::WrapStr(s) => out.push_str(&format!("new String({})", js_str(s))),
        G::WrapBool(b) => out.push_str(&format!("new Boolean({})", b)),
        G::WrapSym => out.push_str("Object(Symbol(\"w\"))"),
        G::Arr(items) => {
            out.push('[');
            for (i, it) in items.iter().enumerate() {
                if i > 0 {
                    out.push_str(", ");
                }
                match it {
                    Some(g) => js(g, defs, out),
                    None => {
                        // a hole; a trailing hole needs one more comma
                        if i + 1 == items.len() {
                            out.push(',');
                        }
                    }
                }
            }
            out.push(']');
        }
        G::Obj(ps) => {
            out.push('{');
            js_props(ps, defs, out);
            out.push('}');
        }
        G::ToJson(ret, ps) => {
            out.push('{');
            js_props(ps, defs, out);
            if !ps.is_empty() {
                out.push_str(", ");
            }
            out.push_str("toJSON() { return ");
            js(ret, defs, out);
            out.push_str("; }}");
        }
        G::ToJsonKey => out.push_str("{toJSON(k) { return \"key:\" + k; }}"),
        G::ClassInst(ps) => {
            out.push_str("new (class { constructor() { ");
            js_assigns("this", ps, defs, out);
            out.push_str("} m() { return 1; } get acc() { return 2; } })()");
        }
        G::Inherit(ps) => {
            out.push_str("(() => { const o = Object.create({inherited: 1}); ");
            js_assigns("o", ps, defs, out);
            out.push_str("return o; })()");
        }
        G::NonEnum(ps) => {
            out.push_str("(() => { const o = {}; ");
            js_assigns("o", ps, defs, out);
            out.push_str("Object.defineProperty(o, \"hidden\", {value: 1, enumerable: false}); return o; })()");
        }
        G::ArrExtra(items) => {
            out.push_str("(() => { const o = [");
            for (i, it) in items.iter().enumerate() {
                if i > 0 {
                    out.push_str(", ");
                }
                js(it, defs, out);
            }
            out.push_str("]; o.extra = 5; return o; })()");
        }
        G::Ref(i) => out.push_str(&format!("s{}", i)),
    }
}

// ---------------------------------------------------------------------------------------------
// expected JSON by the ES rules
// ---------------------------------------------------------------------------------------------
fn civil(days: i64) -> (i64, u32, u32) {
    // Howard Hinnant's civil_from_days
    let z = days + 719_468;
    let era = z.div_euclid(146_097);
    let doe = z.rem_euclid(146_097);
    let yoe = (doe - doe / 1460 + doe / 36_524 - doe / 146_096) / 365;
    let y = yoe + era * 400;
    let doy = doe - (365 * yoe + yoe / 4 - yoe / 100);
    let mp = (5 * doy + 2) / 153;
    let d = (doy - (153 * mp + 2) / 5 + 1) as u32;
    let m = if mp < 10 { mp + 3 } else { mp - 9 } as u32;
    (if m <= 2 { y + 1 } else { y }, m, d)
}

/// Date.prototype.toISOString for a valid time value
pub fn iso(ts: f64) -> String {
    let ms = ts as i64;
    let days = ms.div_euclid(86_400_000);
    let tod = ms.rem_euclid(86_400_000);
    let (y, m, d) = civil(days);
    let ys = if (0..=9999).contains(&y) { format!("{:04}", y) } else if y < 0 { format!("-{:06}", -y) } else { format!("+{:06}", y) };
    format!("{}-{:02}-{:02}T{:02}:{:02}:{:02}.{:03}Z", ys, m, d, tod / 3_600_000, tod / 60_000 % 60, tod / 1000 % 60, tod % 1000)
}

pub fn time_clip(ts: f64) -> f64 {
    if !ts.is_finite() || ts.abs() > 8.64e15 { f64::NAN } else { ts.trunc() + 0.0 }
}

fn ser_named(ps: &[(String, G)], defs: &[G]) -> Doc {
    let mut out: Vec<(String, Doc)> = vec![];
    for (k, g) in ps {
        if let Some(d) = ser(g, k, defs) {
            out.push((k.clone(), d));
        }
    }
    Doc::Obj(out)
}

fn ser_props(ps: &[Prop], defs: &[G]) -> Vec<(String, Doc)> {
    let mut out: Vec<(String, Doc)> = vec![];
    for p in ps {
        match p {
            Prop::Data(k, g) => {
                if let Some(d) = ser(g, &k.name(), defs) {
                    out.push((k.name(), d));
                }
            }
            Prop::Getter(n, g) => {
                if let Some(d) = ser(g, n, defs) {
                    out.push((n.clone(), d));
                }
            }
            Prop::Method(_) | Prop::SymKey(_) => {}
        }
    }
    out
}

/// SerializeJSONProperty: None = undefined (omitted in objects, null in arrays)
pub fn ser(g: &G, key: &str, defs: &[G]) -> Option<Doc> {
    Some(match g {
        G::Undef | G::Func(_) | G::Sym => return None,
        G::Null => Doc::Null,
        G::Bool(b) => Doc::Bool(*b),
        G::Num(x) | G::WrapNum(x) => {
            if x.is_finite() { Doc::Num(*x) } else { Doc::Null }
        }
        G::Str(s) | G::WrapStr(s) => Doc::Str(s.clone()),
        G::WrapBool(b) => Doc::Bool(*b),
        G::Date(ts) => {
            let tv = time_clip(*ts);
            if tv.is_nan() { Doc::Null } else { Doc::Str(iso(tv)) }
        }
        G::Map(_) | G::Set(_) | G::WrapSym => Doc::Obj(vec![]),
        G::Arr(items) => Doc::Arr(items.iter().enumerate().map(|(i, it)| it.as_ref().and_then(|g| ser(g, &i.to_string(), defs)).unwrap_or(Doc::Null)).collect()),
        G::ArrExtra(items) => Doc::Arr(items.iter().enumerate().map(|(i, g)| ser(g, &i.to_string(), defs).unwrap_or(Doc::Null)).collect()),
        G::Obj(ps) => Doc::Obj(ser_props(ps, defs)),
        G::ToJson(ret, _) => return ser_no_tojson(ret, key, defs),
        G::ToJsonKey => Doc::Str(format!("key:{}", key)),
        G::ClassInst(ps) | G::Inherit(ps) | G::NonEnum(ps) => ser_named(ps, defs),
        G::Ref(i) => return ser(&defs[*i], key, defs),
    })
}

fn ser_no_tojson(g: &G, key: &str, defs: &[G]) -> Option<Doc> {
    // the generator never puts a toJSON-bearing node directly as the result of toJSON
    ser(g, key, defs)
}

// ---------------------------------------------------------------------------------------------
// programs
// ---------------------------------------------------------------------------------------------
pub struct Program {
    pub src: String,
    /// None = JSON.stringify returns undefined
    pub expect: Option<Doc>,
    pub cyclic: bool,
}

pub fn indent_js(indent: &serde_json::Value) -> String {
    match indent {
        serde_json::Value::Null => "undefined".into(),
        serde_json::Value::Number(n) => n.to_string(),
        serde_json::Value::String(s) => js_str(s),
        _ => "undefined".into(),
    }
}

fn epilogue(indent: &serde_json::Value) -> String {
    format!(
        "export const s = (() => {{ try {{ const r = JSON.stringify(v, null, {}); return typeof r === \"string\" ? \"S\" + r : \"U\" + typeof r; }} catch (e) {{ return \"E\" + (e instanceof TypeError ? \"TypeError\" : String(e && e.name)); }} }})();\n",
        indent_js(indent)
    )
}

pub fn gen_acyclic(t: &mut Tape, gates: &crate::findings::Gates, indent: &serde_json::Value, f: &mut Feat) -> Program {
    let ndefs = t.weighted(&[3, 3, 2]);
    let mut defs: Vec<G> = vec![];
    let mut src = String::new();
    for i in 0..ndefs {
        let mut c = GCtx { ndefs: i, gates, budget: 12 };
        let g = if t.chance(1, 2) { G::Obj(gen_props(t, &mut c, 2, f)) } else { G::Arr((0..t.range(0, 3)).map(|_| Some(gen_g(t, &mut c, 1, f))).collect()) };
        src.push_str(&format!("const s{} = ", i));
        js(&g, i, &mut src);
        src.push_str(";\n");
        defs.push(g);
    }
    let mut c = GCtx { ndefs, gates, budget: 30 };
    let depth = t.range(0, 4) as usize;
    // roots are mostly containers; bare leaves (incl. undefined / function roots) now and then
    let root = if t.chance(1, 6) { gen_g(t, &mut c, 0, f) } else if t.chance(1, 2) { G::Obj(gen_props(t, &mut c, depth.max(1), f)) } else { gen_g(t, &mut c, depth.max(1), f) };
    src.push_str("export const v = ");
    js(&root, ndefs, &mut src);
    src.push_str(";\n");
    src.push_str(&epilogue(indent));
    let expect = ser(&root, "", &defs);
    Program { src, expect, cyclic: false }
}

pub fn gen_cyclic(t: &mut Tape, gates: &crate::findings::Gates, f: &mut Feat) -> Program {
    let mut src = String::new();
    let mut c = GCtx { ndefs: 0, gates, budget: 8 };
    let o0 = G::Obj(gen_props(t, &mut c, 1, f).into_iter().filter(|p| matches!(p, Prop::Data(..))).collect());
    src.push_str("const s0 = ");
    js(&o0, 0, &mut src);
    src.push_str(";\n");
    let kind = t.below(6);
    let names = ["self-loop", "two-cycle", "through-array", "array-self", "deep-self", "class-self"];
    f.tag(&format!("cycle:{}", names[kind]));
    let mut root_ref = "s0";
    match kind {
        0 => src.push_str("s0.self = s0;\n"),
        1 => src.push_str("const s1 = {tag: \"one\", shared: {z: 1}};\ns0.other = s1;\ns1.back = s0;\n"),
        2 => src.push_str("const s1 = [1, \"two\"];\ns1.push(s0);\ns0.list = s1;\n"),
        3 => {
            src.push_str("const s1 = [s0];\ns1.push(s1);\n");
            root_ref = "s1";
        }
        4 => src.push_str("s0.deep = {b: [1, {c: [[s0]]}]};\n"),
        _ => src.push_str("const s1 = new (class { constructor() { this.me = this; } })();\ns0.inst = s1;\n"),
    }
    // the cyclic part sits at some depth below the root, after acyclic siblings
    let wrap = t.below(5);
    let root = match wrap {
        0 => root_ref.to_string(),
        1 => format!("{{a: 1, b: {}}}", root_ref),
        2 => format!("[0, [1, {}]]", root_ref),
        3 => format!("{{x: {{y: {{z: [{}]}}}}}}", root_ref),
        _ => format!("[{{ok: true}}, {{also: [1, 2, 3]}}, {}]", root_ref),
    };
    src.push_str(&format!("export const v = {};\n", root));
    src.push_str(&epilogue(&serde_json::Value::Null));
    // the interpreter must still serialise an unrelated acyclic value afterwards
    src.push_str("export const after = JSON.stringify({fine: [1, {two: 2}]});\n");
    Program { src, expect: None, cyclic: true }
}
