//! C16 script view: the walker module that runs inside tsrun (ordinary reads only) and the
//! comparison of its token stream with the document model.

use super::doc::{first_str_diff, fmt_num, key_class, show_str, Diff, Doc};
use std::collections::HashMap;

/// The module evaluated in every document case. `walk` is iterative (explicit stack) so that the
/// interpreter's call depth is not what limits the nesting of documents. It deliberately avoids
/// constructs with known unrelated defects on this tree (`in` on array indices, string relational
/// comparison, number-to-string conversion): numbers and strings are handed to the host as values.
pub const LIB: &str = r#"
const hop = Object.prototype.hasOwnProperty;
function dot(o: any, k: string): any {
  switch (k) {
    case "length": return o.length;
    case "constructor": return o.constructor;
    case "toString": return o.toString;
    case "hasOwnProperty": return o.hasOwnProperty;
    case "__proto__": return o.__proto__;
    case "a": return o.a;
    case "b": return o.b;
    case "key": return o.key;
    case "name": return o.name;
    case "x": return o.x;
    case "id": return o.id;
    case "value": return o.value;
    case "items": return o.items;
    default: return o[k];
  }
}
function same(a: any, b: any): boolean {
  if (a === b) { return a !== 0 || 1 / a === 1 / b; }
  return a !== a && b !== b;
}
function isIndexLike(k: string): boolean {
  if (k.length === 0 || k.length > 10) { return false; }
  let digits = true;
  for (let i = 0; i < k.length; i++) {
    const c = k.charCodeAt(i);
    if (c < 48 || c > 57) { digits = false; }
  }
  return digits && (k === "0" || k.charCodeAt(0) !== 48);
}
function walkObject(v: any, out: any[], kinds: number[], vals: any[], sp0: number): number {
  let sp = sp0;
  const keys = Object.keys(v);
  out.push("O"); out.push(keys.length);
  const tail: any[] = ["FI", 0];
  for (const k in v) { tail.push(k); }
  tail[1] = tail.length - 2;
  kinds[sp] = 1; vals[sp] = tail; sp++;
  for (let i = keys.length - 1; i >= 0; i--) {
    const k = keys[i];
    const val = v[k];
    let flags = 0;
    if (hop.call(v, k)) { flags += 1; }
    if (k in v) { flags += 2; }
    if (same(dot(v, k), val)) { flags += 4; }
    if (isIndexLike(k)) {
      if (same(v[Number(k)], val)) { flags += 8; }
    } else {
      flags += 8;
    }
    if (typeof v.hasOwnProperty !== "function" || v.hasOwnProperty(k)) { flags += 16; }
    kinds[sp] = 0; vals[sp] = val; sp++;
    kinds[sp] = 2; vals[sp] = flags; sp++;
    kinds[sp] = 2; vals[sp] = k; sp++;
    kinds[sp] = 2; vals[sp] = "K"; sp++;
  }
  return sp;
}
// Iterative (explicit work stack, manual stack pointer) and written without `continue`/`break`:
// on this engine they leak a block scope per use, which makes long loops quadratic.
export function walk(root: any): any[] {
  const out: any[] = [];
  const kinds: number[] = [0];
  const vals: any[] = [root];
  let sp = 1;
  while (sp > 0) {
    sp--;
    const kind = kinds[sp];
    const v = vals[sp];
    const t = typeof v;
    if (kind === 1) {
      for (let i = 0; i < v.length; i++) { out.push(v[i]); }
    } else if (kind === 2) {
      out.push(v);
    } else if (v === null) {
      out.push("Z");
    } else if (t === "boolean") {
      out.push(v ? "T" : "F");
    } else if (t === "number") {
      out.push("N"); out.push(v);
    } else if (t === "string") {
      out.push("S"); out.push(v);
    } else if (t === "undefined") {
      out.push("U");
    } else if (t !== "object") {
      out.push("X"); out.push(t);
    } else if (Array.isArray(v)) {
      const n = v.length;
      out.push("A"); out.push(n);
      for (let i = n - 1; i >= 0; i--) {
        kinds[sp] = 0; vals[sp] = v[i]; sp++;
        kinds[sp] = 2; vals[sp] = hop.call(v, i) ? 1 : 0; sp++;
      }
    } else {
      sp = walkObject(v, out, kinds, vals, sp);
    }
  }
  return out;
}
export function parseWalk(t: string): any[] { return walk(JSON.parse(t)); }
export function roundtrip(t: string, indent: any): any { return JSON.stringify(JSON.parse(t), null, indent); }
export function parseOnly(t: string): any { return JSON.parse(t); }
export function strf(v: any, indent: any): any { return JSON.stringify(v, null, indent); }
export function tryParse(t: string): string {
  try { const v = JSON.parse(t); return "accepted:" + typeof v; }
  catch (e) { if (e instanceof SyntaxError) { return "SyntaxError"; } return "other:" + String(e && e.name); }
}
export const ready = 1;
"#;

#[derive(Clone, Debug)]
pub enum Tok {
    S(String),
    N(f64),
    Other(String),
}

#[derive(Clone, Debug)]
pub enum View {
    Null,
    Bool(bool),
    Num(f64),
    Str(String),
    Undef,
    Other(String),
    /// (hasOwnProperty flag, element)
    Arr(Vec<(bool, View)>),
    Obj { props: Vec<(String, u32, View)>, forin: Vec<String> },
}

struct TP<'a> {
    t: &'a [Tok],
    i: usize,
}

impl<'a> TP<'a> {
    fn s(&mut self) -> Result<String, String> {
        let r = match self.t.get(self.i) {
            Some(Tok::S(s)) => Ok(s.clone()),
            other => Err(format!("walker protocol: expected a string token at {}, got {:?}", self.i, other)),
        };
        self.i += 1;
        r
    }
    fn n(&mut self) -> Result<f64, String> {
        let r = match self.t.get(self.i) {
            Some(Tok::N(n)) => Ok(*n),
            other => Err(format!("walker protocol: expected a number token at {}, got {:?}", self.i, other)),
        };
        self.i += 1;
        r
    }
    fn value(&mut self) -> Result<View, String> {
        let m = self.s()?;
        Ok(match m.as_str() {
            "Z" => View::Null,
            "T" => View::Bool(true),
            "F" => View::Bool(false),
            "U" => View::Undef,
            "N" => View::Num(self.n()?),
            "S" => View::Str(self.s()?),
            "X" => View::Other(self.s()?),
            "A" => {
                let n = self.n()?.max(0.0) as usize;
                let mut v = Vec::with_capacity(n.min(1 << 16));
                for _ in 0..n {
                    let own = self.n()? == 1.0;
                    v.push((own, self.value()?));
                }
                View::Arr(v)
            }
            "O" => {
                let n = self.n()?.max(0.0) as usize;
                let mut props = Vec::with_capacity(n.min(1 << 16));
                for _ in 0..n {
                    if self.s()? != "K" {
                        return Err("walker protocol: expected K".into());
                    }
                    let k = self.s()?;
                    let flags = self.n()? as u32;
                    props.push((k, flags, self.value()?));
                }
                if self.s()? != "FI" {
                    return Err("walker protocol: expected FI".into());
                }
                let m = self.n()?.max(0.0) as usize;
                let mut forin = Vec::with_capacity(m.min(1 << 16));
                for _ in 0..m {
                    forin.push(self.s()?);
                }
                View::Obj { props, forin }
            }
            other => return Err(format!("walker protocol: unknown marker {:?}", other)),
        })
    }
}

pub fn parse_view(toks: &[Tok]) -> Result<View, String> {
    let mut p = TP { t: toks, i: 0 };
    let v = p.value()?;
    if p.i != toks.len() {
        return Err(format!("walker protocol: {} unread tokens", toks.len() - p.i));
    }
    Ok(v)
}

fn vkind(v: &View) -> String {
    match v {
        View::Null => "null".into(),
        View::Bool(_) => "boolean".into(),
        View::Num(_) => "number".into(),
        View::Str(_) => "string".into(),
        View::Undef => "undefined".into(),
        View::Other(t) => t.clone(),
        View::Arr(_) => "array".into(),
        View::Obj { .. } => "object".into(),
    }
}

fn sub(path: &str, seg: String) -> String {
    if path.len() > 3000 { path.to_string() } else { format!("{}{}", path, seg) }
}

/// Compare what the script sees with the model. Inbound paths keep the sign of zero.
pub fn view_diff(model: &Doc, v: &View, path: &str, holder_key: Option<&str>) -> Option<Diff> {
    let lost = |what: &str| -> Diff {
        let class = match holder_key {
            Some(k) => format!("unreadable-{}", key_class(k)),
            None => "lost-value".to_string(),
        };
        (class, path.to_string(), format!("expected {}, the script reads undefined", what))
    };
    match (model, v) {
        (Doc::Null, View::Null) => None,
        (Doc::Bool(a), View::Bool(b)) if a == b => None,
        (Doc::Num(a), View::Num(b)) => {
            if a.to_bits() == b.to_bits() {
                None
            } else {
                let class = if *a == 0.0 && *b == 0.0 { "zero-sign" } else { "number" };
                Some((class.into(), path.into(), format!("expected {} script sees {}", fmt_num(*a), fmt_num(*b))))
            }
        }
        (Doc::Str(a), View::Str(b)) => {
            if a == b { None } else { Some(("string".into(), path.into(), first_str_diff(a, b))) }
        }
        (Doc::Arr(a), View::Arr(b)) => {
            if a.len() != b.len() {
                return Some(("array-length".into(), path.into(), format!("expected length {} script sees {}", a.len(), b.len())));
            }
            for (i, (x, (own, y))) in a.iter().zip(b.iter()).enumerate() {
                if let Some(d) = view_diff(x, y, &sub(path, format!("[{}]", i)), None) {
                    return Some(d);
                }
                if !own {
                    return Some(("array-element-not-own".into(), sub(path, format!("[{}]", i)), "hasOwnProperty.call(arr, i) is false".into()));
                }
            }
            None
        }
        (Doc::Obj(o), View::Obj { props, forin }) => {
            let mut have: HashMap<&str, (&u32, &View)> = HashMap::new();
            for (k, fl, val) in props {
                if have.insert(k.as_str(), (fl, val)).is_some() {
                    return Some(("duplicate-key".into(), path.into(), format!("Object.keys lists {} twice", show_str(k))));
                }
            }
            for (k, _) in o {
                if !have.contains_key(k.as_str()) {
                    return Some((format!("missing-{}", key_class(k)), path.into(), format!("Object.keys lacks {} (sees {} keys, document has {})", show_str(k), props.len(), o.len())));
                }
            }
            if props.len() != o.len() {
                let want: std::collections::HashSet<&str> = o.iter().map(|(k, _)| k.as_str()).collect();
                let extra = props.iter().find(|(k, _, _)| !want.contains(k.as_str())).map(|(k, _, _)| k.as_str()).unwrap_or("");
                return Some(("extra-key".into(), path.into(), format!("Object.keys has unexpected key {}", show_str(extra))));
            }
            for (k, x) in o {
                let (flags, y) = have[k.as_str()];
                let cpath = sub(path, format!(".{}", show_str(k)));
                if let Some(d) = view_diff(x, y, &cpath, Some(k)) {
                    return Some(d);
                }
                if *flags != 31 {
                    let mut bad = vec![];
                    if flags & 1 == 0 {
                        bad.push("hasOwnProperty.call(o,k) is false");
                    }
                    if flags & 2 == 0 {
                        bad.push("(k in o) is false");
                    }
                    if flags & 4 == 0 {
                        bad.push("o.k differs from o[k]");
                    }
                    if flags & 8 == 0 {
                        bad.push("o[Number(k)] differs from o[k]");
                    }
                    if flags & 16 == 0 {
                        bad.push("o.hasOwnProperty(k) is false");
                    }
                    return Some((format!("key-flags-{}", key_class(k)), cpath, bad.join("; ")));
                }
            }
            let fset: std::collections::HashSet<&str> = forin.iter().map(|s| s.as_str()).collect();
            for (k, _) in o {
                if !fset.contains(k.as_str()) {
                    return Some((format!("for-in-missing-{}", key_class(k)), path.into(), format!("for-in does not visit key {}", show_str(k))));
                }
            }
            if forin.len() != o.len() {
                return Some(("for-in-extra".into(), path.into(), format!("for-in visits {} keys, document has {}", forin.len(), o.len())));
            }
            None
        }
        (m, View::Undef) => Some(lost(match m {
            Doc::Null => "null",
            Doc::Bool(_) => "a boolean",
            Doc::Num(_) => "a number",
            Doc::Str(_) => "a string",
            Doc::Arr(_) => "an array",
            Doc::Obj(_) => "an object",
        })),
        (m, v) => Some((
            "kind".into(),
            path.into(),
            format!(
                "expected {}, script sees {}",
                match m {
                    Doc::Null => "null",
                    Doc::Bool(_) => "boolean",
                    Doc::Num(_) => "number",
                    Doc::Str(_) => "string",
                    Doc::Arr(_) => "array",
                    Doc::Obj(_) => "object",
                },
                vkind(v)
            ),
        )),
    }
}
