//! C16 generators for JSON documents and JSON texts (valid with every spelling, and invalid by
//! construction). Every decision is read from the tape.

use super::doc::{parse_json, scan_number, tokens, Doc};
use crate::tape::Tape;

/// generator tree: numbers are *tokens* (the value is what Rust's f64 parser says), objects may
/// repeat keys (JSON.parse: last wins)
#[derive(Clone, Debug)]
pub enum GDoc {
    Null,
    Bool(bool),
    Num(String),
    Str(String),
    Arr(Vec<GDoc>),
    Obj(Vec<(String, GDoc)>),
}

pub const SPECIAL_KEYS: [&str; 16] = [
    "", "0", "01", "-0", "1", "2", "4294967295", "4294967294", "length", "__proto__", "constructor", "toString", "10", "4294967296", "1.5", "hasOwnProperty",
];

pub const SPECIAL_NUMS: [&str; 48] = [
    "0", "-0", "1", "-1", "1e21", "1e-7", "5e-324", "1.7976931348623157e308", "-1.7976931348623157e308", "2.2250738585072014e-308",
    "2.225073858507201e-308", "9007199254740992", "-9007199254740992", "9007199254740991", "9007199254740993", "4294967295", "4294967296",
    "-2147483648", "0.1", "0.2", "0.30000000000000004", "1e20", "123456789012345680000", "1e-6", "0.000001", "1.5", "-1.5", "1E2", "1e+2", "1.0",
    "0.0", "-0.0", "0e0", "-0e-0", "100", "1e0", "2.2250738585072011e-308", "1.00000000000000011102230246251565404236316680908203125",
    "9007199254740993.0", "6929495644600919.5", "8.41e21", "1e23", "1e-330", "4.9e-324", "2.4703282292062328e-324", "0.5", "1e22", "7.2057594037927933e16",
];

pub struct Feat {
    pub tags: std::collections::BTreeSet<String>,
    pub special: bool,
    pub excluded: std::collections::BTreeMap<String, u64>,
}
impl Feat {
    pub fn new() -> Feat {
        Feat { tags: Default::default(), special: false, excluded: Default::default() }
    }
    pub fn tag(&mut self, t: &str) {
        self.tags.insert(t.to_string());
    }
    pub fn exclude(&mut self, g: &str) {
        *self.excluded.entry(g.to_string()).or_insert(0) += 1;
    }
}

pub fn gen_char(t: &mut Tape) -> char {
    const SPECIALS: [u32; 14] = [0x2028, 0x2029, 0xFEFF, 0xFFFD, 0xFFFE, 0xFFFF, 0xD7FF, 0xE000, 0xA0, 0x85, 0x200B, 0x202E, 0x0, 0x7F];
    const ASTRAL: [u32; 6] = [0x10000, 0x1F600, 0x10FFFF, 0x1D11E, 0xE0001, 0x2F800];
    const PUNCT: [char; 12] = [' ', '.', ',', ':', '{', '}', '[', ']', '\'', '-', '_', '$'];
    let cp = match t.weighted(&[8, 2, 2, 2, 1, 2, 2, 1, 2]) {
        0 => {
            let k = t.below(62) as u32;
            if k < 26 { 'a' as u32 + k } else if k < 52 { 'A' as u32 + k - 26 } else { '0' as u32 + k - 52 }
        }
        1 => *t.pick(&PUNCT) as u32,
        2 => *t.pick(&['"', '\\', '/']) as u32,
        3 => t.below(0x20) as u32,
        4 => 0x7F + t.below(0x21) as u32,
        5 => 0xA0 + t.below(0x360) as u32,
        6 => *t.pick(&SPECIALS),
        7 => *t.pick(&ASTRAL),
        _ => {
            let mut v = t.below(0x110000 - 0x800) as u32;
            if v >= 0xD800 {
                v += 0x800;
            }
            v
        }
    };
    char::from_u32(cp).unwrap_or('?')
}

pub fn gen_string(t: &mut Tape) -> String {
    let len = match t.weighted(&[1, 4, 3, 1]) {
        0 => 0,
        1 => t.range(1, 4) as usize,
        2 => t.range(5, 12) as usize,
        _ => {
            if t.chance(1, 8) { t.range(41, 200) as usize } else { t.range(13, 40) as usize }
        }
    };
    (0..len).map(|_| gen_char(t)).collect()
}

pub fn gen_key(t: &mut Tape, prev: &[(String, GDoc)], proto_excluded: bool, f: &mut Feat) -> String {
    const NUMISH: [&str; 10] = ["3", "7", "007", "-1", "1e3", "9007199254740993", " 1", "١", "0x1", "00"];
    const IDENT: [&str; 8] = ["a", "b", "key", "name", "x", "id", "value", "items"];
    let k = match t.weighted(&[4, 4, 2, 2, 1]) {
        0 => IDENT[t.below(IDENT.len())].to_string(),
        1 => SPECIAL_KEYS[t.below(SPECIAL_KEYS.len())].to_string(),
        2 => gen_string(t),
        3 => NUMISH[t.below(NUMISH.len())].to_string(),
        _ => {
            if prev.is_empty() {
                "a".to_string()
            } else {
                f.tag("key:duplicate");
                prev[t.below(prev.len())].0.clone()
            }
        }
    };
    if k == "__proto__" && proto_excluded {
        f.exclude("key:__proto__");
        return "proto".to_string();
    }
    k
}

fn digits(t: &mut Tape, n: usize, first_nonzero: bool) -> String {
    let mut s = String::new();
    for i in 0..n {
        let d = if i == 0 && first_nonzero { 1 + t.below(9) } else { t.below(10) };
        s.push((b'0' + d as u8) as char);
    }
    s
}

fn finite_from_bits(mut bits: u64) -> f64 {
    if (bits >> 52) & 0x7ff == 0x7ff {
        bits &= !(1u64 << 52);
    }
    f64::from_bits(bits)
}

fn respell(t: &mut Tape, tok: String) -> String {
    // equivalent spellings of the same token
    match t.below(6) {
        0 | 1 | 2 => tok,
        3 => tok.replace('e', "E"),
        4 => {
            if tok.contains('e') {
                if tok.contains("e-") { tok } else { tok.replace('e', "e+") }
            } else if !tok.contains('.') {
                format!("{}.0", tok)
            } else {
                tok
            }
        }
        _ => {
            if tok.contains('e') || tok.contains('E') { tok } else { format!("{}e0", tok) }
        }
    }
}

pub fn gen_num_token(t: &mut Tape, f: &mut Feat) -> String {
    let tok = match t.weighted(&[6, 3, 3, 3, 2, 2, 2]) {
        0 => format!("{}", t.range(-10, 10)),
        1 => {
            f.special = true;
            f.tag("num:special");
            SPECIAL_NUMS[t.below(SPECIAL_NUMS.len())].to_string()
        }
        2 => {
            let k = t.range(0, 53) as u32;
            let m = if k == 0 { 0 } else { t.u64() & ((1u64 << k) - 1) | (1u64 << (k - 1)) };
            let m = m.min(1u64 << 53);
            if k > 31 {
                f.special = true;
                f.tag("num:big-int");
            }
            let s = if t.chance(1, 2) { "-" } else { "" };
            respell(t, format!("{}{}", s, m))
        }
        3 => {
            f.special = true;
            f.tag("num:double-bits");
            let x = finite_from_bits(t.u64());
            let mut b = ryu::Buffer::new();
            respell(t, b.format_finite(x).to_string())
        }
        4 => {
            f.special = true;
            f.tag("num:decimal-digits");
            let nd = t.range(1, 25) as usize;
            let int_len = t.range(1, nd as i64) as usize;
            let all = digits(t, nd, false);
            let (ip, fp) = all.split_at(int_len);
            let ip = ip.trim_start_matches('0');
            let ip = if ip.is_empty() { "0" } else { ip };
            let mut s = String::new();
            if t.chance(1, 3) {
                s.push('-');
            }
            s.push_str(ip);
            if !fp.is_empty() {
                s.push('.');
                s.push_str(fp);
            }
            if t.chance(1, 2) {
                let e = match t.below(3) {
                    0 => t.range(-20, 20),
                    1 => t.range(-330, -280),
                    _ => t.range(260, 300),
                };
                s.push_str(&format!("e{}", e));
            }
            if s.parse::<f64>().map(|x| x.is_finite()).unwrap_or(false) { s } else { "1e300".to_string() }
        }
        5 => {
            f.special = true;
            f.tag("num:long-expansion");
            let x = finite_from_bits(t.u64());
            let prec = t.range(17, 60) as usize;
            format!("{:.*e}", prec, x)
        }
        _ => {
            f.special = true;
            f.tag("num:tie");
            // exact midpoints between adjacent doubles (ties-to-even) and near misses
            let k = (1u64 << 52) + (t.u64() & ((1u64 << 52) - 1));
            let sign = if t.chance(1, 4) { "-" } else { "" };
            match t.below(6) {
                0 => format!("{}{}", sign, 2 * k + 1),
                1 => format!("{}{}.0", sign, 2 * k + 1),
                2 => format!("{}{}.5", sign, k),
                3 => format!("{}{}.50000000000000000000001", sign, k),
                4 => format!("{}{}.49999999999999999999999", sign, k),
                _ => format!("{}{}.{}e1", sign, (2 * k + 1) / 10, (2 * k + 1) % 10),
            }
        }
    };
    debug_assert!(scan_number(tok.as_bytes(), 0) == Some(tok.len()), "generator produced a non-JSON number token {}", tok);
    tok
}

pub struct TreeCfg {
    pub max_depth: usize,
    pub max_width: usize,
    pub budget: usize,
    pub proto_excluded: bool,
}

pub fn gen_tree(t: &mut Tape, cfg: &TreeCfg, depth_left: usize, budget: &mut usize, f: &mut Feat) -> GDoc {
    let container_ok = depth_left > 0 && *budget > 0;
    let k = if container_ok { t.weighted(&[1, 1, 3, 3, 3, 3]) } else { t.weighted(&[1, 1, 3, 3]) };
    *budget = budget.saturating_sub(1);
    match k {
        0 => GDoc::Null,
        1 => GDoc::Bool(t.chance(1, 2)),
        2 => GDoc::Num(gen_num_token(t, f)),
        3 => GDoc::Str(gen_string(t)),
        4 => {
            let n = t.range(0, cfg.max_width as i64) as usize;
            GDoc::Arr((0..n).map(|_| gen_tree(t, cfg, depth_left - 1, budget, f)).collect())
        }
        _ => {
            let n = t.range(0, cfg.max_width as i64) as usize;
            let mut v: Vec<(String, GDoc)> = vec![];
            for _ in 0..n {
                let key = gen_key(t, &v, cfg.proto_excluded, f);
                let val = gen_tree(t, cfg, depth_left - 1, budget, f);
                v.push((key, val));
            }
            GDoc::Obj(v)
        }
    }
}

pub fn model_of(g: &GDoc) -> Doc {
    match g {
        GDoc::Null => Doc::Null,
        GDoc::Bool(b) => Doc::Bool(*b),
        GDoc::Num(tok) => Doc::Num(tok.parse::<f64>().expect("number token")),
        GDoc::Str(s) => Doc::Str(s.clone()),
        GDoc::Arr(a) => Doc::Arr(a.iter().map(model_of).collect()),
        GDoc::Obj(o) => {
            let mut out: Vec<(String, Doc)> = vec![];
            for (k, v) in o {
                let m = model_of(v);
                if let Some(e) = out.iter_mut().find(|(k2, _)| k2 == k) {
                    e.1 = m;
                } else {
                    out.push((k.clone(), m));
                }
            }
            Doc::Obj(out)
        }
    }
}

/// features of the model that make a case non-trivial
pub fn scan_features(d: &Doc, f: &mut Feat) {
    match d {
        Doc::Str(s) => string_features(s, false, f),
        Doc::Num(x) => {
            if *x == 0.0 && x.is_sign_negative() {
                f.special = true;
                f.tag("num:-0");
            }
        }
        Doc::Arr(a) => a.iter().for_each(|x| scan_features(x, f)),
        Doc::Obj(o) => {
            for (k, v) in o {
                string_features(k, true, f);
                if SPECIAL_KEYS.contains(&k.as_str()) {
                    f.special = true;
                    f.tag(&format!("key:special:{}", k));
                }
                if super::doc::key_class(k) == "index-key" {
                    f.special = true;
                    f.tag("key:index-like");
                }
                scan_features(v, f);
            }
        }
        _ => {}
    }
}

fn string_features(s: &str, is_key: bool, f: &mut Feat) {
    let p = if is_key { "key" } else { "str" };
    for c in s.chars() {
        let u = c as u32;
        if u < 0x20 || c == '"' || c == '\\' {
            f.special = true;
            f.tag(&format!("{}:needs-escape", p));
        }
        if u == 0 {
            f.tag(&format!("{}:NUL", p));
        }
        if u == 0x2028 || u == 0x2029 {
            f.special = true;
            f.tag(&format!("{}:U+2028/9", p));
        }
        if u >= 0x10000 {
            f.special = true;
            f.tag(&format!("{}:astral", p));
        } else if u >= 0x80 {
            f.tag(&format!("{}:non-ascii", p));
        }
    }
}

// ---------------------------------------------------------------------------------------------
// rendering with spelling choices
// ---------------------------------------------------------------------------------------------
pub struct Spell {
    /// 0 none, 1 conventional, 2 random
    pub ws: usize,
}

fn ws(t: &mut Tape, sp: &Spell, out: &mut String, after_sep: bool) {
    match sp.ws {
        0 => {}
        1 => {
            if after_sep {
                out.push(' ');
            }
        }
        _ => {
            const W: [&str; 7] = ["", " ", "\n", "\t", "\r", " \n\t ", "\r\n  "];
            out.push_str(W[t.below(W.len())]);
        }
    }
}

pub fn render_string(t: &mut Tape, s: &str, out: &mut String, f: &mut Feat) {
    // 0 minimal, 1 everything escaped, 2 per-character choice
    let mode = t.weighted(&[3, 1, 3]);
    let upper = t.chance(1, 2);
    if mode == 1 {
        f.tag("text:all-escaped");
        f.special = f.special || !s.is_empty();
        super::doc::str_all_escaped(s, upper, out);
        return;
    }
    out.push('"');
    let mut buf = [0u16; 2];
    for c in s.chars() {
        let u = c as u32;
        let short = match c {
            '"' => Some("\\\""),
            '\\' => Some("\\\\"),
            '/' => Some("\\/"),
            '\u{8}' => Some("\\b"),
            '\u{c}' => Some("\\f"),
            '\n' => Some("\\n"),
            '\r' => Some("\\r"),
            '\t' => Some("\\t"),
            _ => None,
        };
        let must = u < 0x20 || c == '"' || c == '\\';
        // choice: 0 raw (if legal), 1 short escape (if any), 2 \u escape
        let choice = if mode == 0 { 0 } else { t.weighted(&[4, 1, 1]) };
        let use_short = short.is_some() && (choice == 1 || (must && choice == 0));
        if use_short {
            out.push_str(short.unwrap());
            if c == '/' {
                f.tag("text:escaped-solidus");
            }
        } else if must || choice == 2 || (choice == 1 && short.is_none() && mode == 2 && u >= 0x80) {
            for x in c.encode_utf16(&mut buf) {
                if upper {
                    out.push_str(&format!("\\u{:04X}", x));
                } else {
                    out.push_str(&format!("\\u{:04x}", x));
                }
            }
            f.special = true;
            if u >= 0x10000 {
                f.tag("text:surrogate-pair-escape");
            } else {
                f.tag("text:u-escape");
            }
        } else {
            out.push(c);
        }
    }
    out.push('"');
}

pub fn render(t: &mut Tape, g: &GDoc, sp: &Spell, out: &mut String, f: &mut Feat) {
    match g {
        GDoc::Null => out.push_str("null"),
        GDoc::Bool(b) => out.push_str(if *b { "true" } else { "false" }),
        GDoc::Num(tok) => out.push_str(tok),
        GDoc::Str(s) => render_string(t, s, out, f),
        GDoc::Arr(a) => {
            out.push('[');
            ws(t, sp, out, false);
            for (i, x) in a.iter().enumerate() {
                if i > 0 {
                    out.push(',');
                    ws(t, sp, out, true);
                }
                render(t, x, sp, out, f);
                ws(t, sp, out, false);
            }
            out.push(']');
        }
        GDoc::Obj(o) => {
            out.push('{');
            ws(t, sp, out, false);
            for (i, (k, x)) in o.iter().enumerate() {
                if i > 0 {
                    out.push(',');
                    ws(t, sp, out, true);
                }
                render_string(t, k, out, f);
                ws(t, sp, out, false);
                out.push(':');
                ws(t, sp, out, true);
                render(t, x, sp, out, f);
                ws(t, sp, out, false);
            }
            out.push('}');
        }
    }
}

// ---------------------------------------------------------------------------------------------
// invalid texts: one defect planted into a valid compact text
// ---------------------------------------------------------------------------------------------
pub const INVALID_KINDS: [&str; 22] = [
    "trailing-comma", "single-quotes", "raw-control-char", "leading-zero", "bare-word", "truncated", "number-form", "comment", "colon", "unquoted-key",
    "bad-escape", "extra-closer", "two-values", "bad-whitespace", "missing-comma", "double-comma", "leading-comma", "empty-text", "unterminated-string",
    "raw-newline-in-string", "dangling-backslash", "short-u-escape",
];

/// `base` is a valid compact JSON text whose root is a non-empty object or array.
pub fn make_invalid(t: &mut Tape, base: &str) -> (String, &'static str) {
    let toks = tokens(base);
    let kind_ix = t.below(INVALID_KINDS.len());
    let kind = INVALID_KINDS[kind_ix];
    let strings: Vec<&(u8, usize, usize)> = toks.iter().filter(|x| x.0 == b's').collect();
    let numbers: Vec<&(u8, usize, usize)> = toks.iter().filter(|x| x.0 == b'n').collect();
    // value tokens that are not keys: a string token followed by ':' is a key
    let mut values: Vec<(usize, usize)> = vec![];
    for (i, tk) in toks.iter().enumerate() {
        let is_key = tk.0 == b's' && toks.get(i + 1).map(|n| n.0 == b':').unwrap_or(false);
        if matches!(tk.0, b's' | b'n' | b'l') && !is_key {
            values.push((tk.1, tk.2));
        }
    }
    let closers: Vec<usize> = toks.iter().enumerate().filter(|(i, x)| (x.0 == b']' || x.0 == b'}') && *i > 0 && !matches!(toks[*i - 1].0, b'[' | b'{')).map(|(_, x)| x.1).collect();
    let openers: Vec<&(u8, usize, usize)> = toks.iter().enumerate().filter(|(i, x)| (x.0 == b'[' || x.0 == b'{') && toks.get(*i + 1).map(|n| !matches!(n.0, b']' | b'}')).unwrap_or(false)).map(|(_, x)| x).collect();
    let commas: Vec<usize> = toks.iter().filter(|x| x.0 == b',').map(|x| x.1).collect();
    let colons: Vec<usize> = toks.iter().filter(|x| x.0 == b':').map(|x| x.1).collect();
    let keys: Vec<(usize, usize)> = toks.iter().enumerate().filter(|(i, x)| x.0 == b's' && toks.get(*i + 1).map(|n| n.0 == b':').unwrap_or(false)).map(|(_, x)| (x.1, x.2)).collect();
    let splice = |st: usize, en: usize, with: &str| -> String { format!("{}{}{}", &base[..st], with, &base[en..]) };
    let fallback = || ("[1,]".to_string(), "trailing-comma");
    let pick_pos = |t: &mut Tape, v: &[usize]| -> Option<usize> { if v.is_empty() { None } else { Some(v[t.below(v.len())]) } };
    // insert a raw text inside a string token body (after the opening quote, at a char boundary
    // that is not inside an escape sequence: position 1 is always safe)
    let in_string = |t: &mut Tape, ins: &str| -> Option<String> {
        if strings.is_empty() {
            return None;
        }
        let s = strings[t.below(strings.len())];
        Some(splice(s.1 + 1, s.1 + 1, ins))
    };
    let out: Option<String> = match kind {
        "trailing-comma" => pick_pos(t, &closers).map(|p| splice(p, p, ",")),
        "single-quotes" => {
            if strings.is_empty() {
                None
            } else {
                let s = strings[t.below(strings.len())];
                Some(format!("{}'{}'{}", &base[..s.1], &base[s.1 + 1..s.2 - 1], &base[s.2..]))
            }
        }
        "raw-control-char" => {
            let c = char::from_u32(t.below(0x20) as u32).unwrap();
            in_string(t, &c.to_string())
        }
        "raw-newline-in-string" => in_string(t, "\n"),
        "leading-zero" => {
            if numbers.is_empty() {
                None
            } else {
                let n = numbers[t.below(numbers.len())];
                let tok = &base[n.1..n.2];
                let (sign, rest) = if let Some(r) = tok.strip_prefix('-') { ("-", r) } else { ("", tok) };
                let rest = if rest.starts_with('0') && rest.len() > 1 && !rest.as_bytes()[1].is_ascii_digit() { format!("0{}", rest) } else if rest == "0" { "00".to_string() } else { format!("0{}", rest) };
                Some(splice(n.1, n.2, &format!("{}{}", sign, rest)))
            }
        }
        "bare-word" => {
            const W: [&str; 12] = ["NaN", "Infinity", "-Infinity", "undefined", "True", "nul", "tru", "None", "nil", "FALSE", "Null", "-"];
            if values.is_empty() {
                None
            } else {
                let v = values[t.below(values.len())];
                Some(splice(v.0, v.1, W[t.below(W.len())]))
            }
        }
        "number-form" => {
            const W: [&str; 14] = [".5", "5.", "+1", "0x10", "1e", "1e+", "1.e5", "--1", "1_000", "1.2.3", "1e5.5", "0b1", "1f", "-.5"];
            if values.is_empty() {
                None
            } else {
                let v = values[t.below(values.len())];
                Some(splice(v.0, v.1, W[t.below(W.len())]))
            }
        }
        "truncated" => {
            // any proper non-empty prefix of a container-rooted text is invalid
            let mut cut = 1 + t.below(base.len().saturating_sub(1).max(1));
            while cut < base.len() && !base.is_char_boundary(cut) {
                cut += 1;
            }
            if cut >= base.len() { None } else { Some(base[..cut].to_string()) }
        }
        "comment" => {
            let all: Vec<usize> = toks.iter().map(|x| x.1).collect();
            pick_pos(t, &all).map(|p| splice(p, p, if t.chance(1, 2) { "/*c*/" } else { "//c\n" }))
        }
        "colon" => pick_pos(t, &colons).map(|p| splice(p, p + 1, *t.pick(&["=", "", " ", "::", "=>"]))),
        "unquoted-key" => {
            if keys.is_empty() { None } else { let k = keys[t.below(keys.len())]; Some(splice(k.0, k.1, "key")) }
        }
        "bad-escape" => {
            const W: [&str; 8] = ["\\x41", "\\'", "\\0", "\\a", "\\v", "\\u{41}", "\\U0041", "\\ "];
            let w = W[t.below(W.len())];
            in_string(t, w)
        }
        "short-u-escape" => {
            const W: [&str; 5] = ["\\u12", "\\u12G4", "\\u", "\\u 041", "\\u+041"];
            let w = W[t.below(W.len())];
            in_string(t, w).map(|s| s) // the following character is '"' or the old first char: never 4 hex digits in total for \u12 + non-hex; checked by the parsers below
        }
        "extra-closer" => Some(format!("{}{}", base, t.pick(&["]", "}", ",", ":"]))),
        "two-values" => Some(format!("{} {}", base, t.pick(&["1", "null", "[]", "{}", "\"x\""]))),
        "bad-whitespace" => {
            const W: [&str; 7] = ["\u{A0}", "\u{FEFF}", "\u{2028}", "\u{B}", "\u{C}", "\u{2003}", "\u{0}"];
            let w = W[t.below(W.len())];
            let mut all: Vec<usize> = toks.iter().map(|x| x.1).collect();
            all.push(base.len());
            pick_pos(t, &all).map(|p| splice(p, p, w))
        }
        "missing-comma" => pick_pos(t, &commas).map(|p| splice(p, p + 1, " ")),
        "double-comma" => pick_pos(t, &commas).map(|p| splice(p, p, ",")),
        "leading-comma" => {
            if openers.is_empty() { None } else { let o = openers[t.below(openers.len())]; Some(splice(o.2, o.2, ",")) }
        }
        "empty-text" => Some(t.pick(&["", " ", "\n", "\t \r\n"]).to_string()),
        "unterminated-string" => {
            if strings.is_empty() { None } else { let s = strings[t.below(strings.len())]; Some(base[..s.2 - 1].to_string()) }
        }
        "dangling-backslash" => {
            if strings.is_empty() { None } else { let s = strings[t.below(strings.len())]; Some(splice(s.2 - 1, s.2 - 1, "\\")) }
        }
        _ => None,
    };
    match out {
        Some(s) => {
            // invalid by construction; confirmed by two independent parsers, else fall back
            // (a text that is only "invalid" because of a lone surrogate escape is outside the domain)
            let mine = parse_json(&s);
            if mine.as_ref().err().map(|e| !e.contains("surrogate")).unwrap_or(false) && serde_json::from_str::<serde_json::Value>(&s).is_err() {
                (s, kind)
            } else {
                let (a, b) = fallback();
                (a, if b == "trailing-comma" { "fallback" } else { b })
            }
        }
        None => {
            let (a, _) = fallback();
            (a, "fallback")
        }
    }
}
