//! C13 — the collector implements guard reachability exactly and memory-safely.
//!
//! A case is an operation history over the public `Heap / Guard / Gc` API with the payload
//! `Node { value, refs }`. The oracle is a reference model (objects, links, guard root multisets,
//! handle table, reachability by BFS from live guards) that is stepped in lock-step with the real
//! heap. Two generators: an exhaustive bounded enumeration over abstract model states
//! (`fixed_cases`) and long random histories from the choice tape (`generate`).
//! The binary is built with AddressSanitizer by `./check C13`, so any out-of-bounds / freed-memory
//! access of the collector kills the worker (exit 99) and is turned into a VIOLATION by the supervisor.

use crate::core::{guarded, Ctx, Exec, Plan, Property, Tier};
use crate::tape::{fnv64, Tape};
use serde_json::{json, Value};
use std::cell::RefCell;
use std::collections::{BTreeMap, HashMap, VecDeque};
use tsrun::gc::{GcPtr, Traceable};
use tsrun::{Gc, Guard, Heap, Reset};

pub struct C13Prop;
pub static C13: C13Prop = C13Prop;

const NONE: u32 = u32::MAX;
/// gate name of the (now fixed) stale-handle finding; honoured if the finding is ever re-opened
const GATE_STALE_AFTER_REUSE: &str = "c13:stale-handle-use-after-slot-reuse";

// ---------------------------------------------------------------------------------------------
// payload type
// ---------------------------------------------------------------------------------------------
#[derive(Default)]
pub struct Node {
    pub value: u64,
    pub refs: Vec<Gc<Node>>,
}
impl Reset for Node {
    fn reset(&mut self) {
        self.value = 0;
        self.refs.clear();
    }
}
impl Traceable for Node {
    fn trace<F: FnMut(GcPtr<Self>)>(&self, mut visitor: F) {
        for r in &self.refs {
            visitor(r.copy_ref());
        }
    }
}

// ---------------------------------------------------------------------------------------------
// operations
// ---------------------------------------------------------------------------------------------
/// Guards and handles are named by creation index (an op that creates one always consumes the
/// next index, even when the executor has to skip it), so a rendered history is self-contained.
#[derive(Clone, Copy, Debug, PartialEq, Eq)]
pub enum Op {
    NewGuard,
    DropGuard(usize),
    /// `guards[g].alloc()` -> new handle
    Alloc(usize),
    /// `a.refs.push(b.clone())`
    Link(usize, usize),
    /// `a.refs.remove(i)`
    Unlink(usize, usize),
    /// `guards[g].guard(h.clone())`
    GuardClone(usize, usize),
    /// `guards[g].guard(h)` (the handle is consumed)
    GuardMove(usize, usize),
    /// `guards[g].unguard(&h)`
    Unguard(usize, usize),
    Clear(usize),
    CloneH(usize),
    DropH(usize),
    /// new handle = `h.refs[i].clone()`
    Load(usize, usize),
    Write(usize, u64),
    Collect,
    Threshold(usize),
    HeapClone,
    HeapDrop,
}

impl Op {
    fn code(&self) -> &'static str {
        match self {
            Op::NewGuard => "ng",
            Op::DropGuard(_) => "dg",
            Op::Alloc(_) => "al",
            Op::Link(..) => "ln",
            Op::Unlink(..) => "ul",
            Op::GuardClone(..) => "gc",
            Op::GuardMove(..) => "gm",
            Op::Unguard(..) => "ug",
            Op::Clear(_) => "cl",
            Op::CloneH(_) => "ch",
            Op::DropH(_) => "dh",
            Op::Load(..) => "ld",
            Op::Write(..) => "wr",
            Op::Collect => "co",
            Op::Threshold(_) => "th",
            Op::HeapClone => "hc",
            Op::HeapDrop => "hd",
        }
    }
    fn render(&self, out: &mut String) {
        use std::fmt::Write;
        out.push_str(self.code());
        let _ = match *self {
            Op::NewGuard | Op::Collect | Op::HeapClone | Op::HeapDrop => Ok(()),
            Op::DropGuard(a) | Op::Alloc(a) | Op::Clear(a) | Op::CloneH(a) | Op::DropH(a) | Op::Threshold(a) => write!(out, "{}", a),
            Op::Link(a, b) | Op::Unlink(a, b) | Op::GuardClone(a, b) | Op::GuardMove(a, b) | Op::Unguard(a, b) | Op::Load(a, b) => {
                write!(out, "{},{}", a, b)
            }
            Op::Write(a, v) => write!(out, "{},{}", a, v),
        };
    }
    fn parse(s: &str) -> Option<Op> {
        if s.len() < 2 || !s.is_char_boundary(2) {
            return None;
        }
        let (code, rest) = s.split_at(2);
        let mut it = rest.split(',').filter(|x| !x.is_empty()).map(|x| x.parse::<u64>());
        let mut arg = || -> Option<u64> { it.next()?.ok() };
        Some(match code {
            "ng" => Op::NewGuard,
            "co" => Op::Collect,
            "hc" => Op::HeapClone,
            "hd" => Op::HeapDrop,
            "dg" => Op::DropGuard(arg()? as usize),
            "al" => Op::Alloc(arg()? as usize),
            "cl" => Op::Clear(arg()? as usize),
            "ch" => Op::CloneH(arg()? as usize),
            "dh" => Op::DropH(arg()? as usize),
            "th" => Op::Threshold(arg()? as usize),
            "ln" => Op::Link(arg()? as usize, arg()? as usize),
            "ul" => Op::Unlink(arg()? as usize, arg()? as usize),
            "gc" => Op::GuardClone(arg()? as usize, arg()? as usize),
            "gm" => Op::GuardMove(arg()? as usize, arg()? as usize),
            "ug" => Op::Unguard(arg()? as usize, arg()? as usize),
            "ld" => Op::Load(arg()? as usize, arg()? as usize),
            "wr" => Op::Write(arg()? as usize, arg()?),
            _ => return None,
        })
    }
}

pub fn render_ops(ops: &[Op]) -> String {
    let mut s = String::with_capacity(ops.len() * 7);
    for (i, op) in ops.iter().enumerate() {
        if i > 0 {
            s.push(' ');
        }
        op.render(&mut s);
    }
    s
}

pub fn parse_ops(s: &str) -> Option<Vec<Op>> {
    s.split_whitespace().map(Op::parse).collect()
}

// ---------------------------------------------------------------------------------------------
// reference model
// ---------------------------------------------------------------------------------------------
#[derive(Clone, Debug)]
struct MObj {
    value: u64,
    refs: Vec<u32>,
    /// unreachable at some collection point (or its slot was handed out again while it was unreachable)
    reclaimed: bool,
    /// predicted slot index (only used to de-duplicate abstract states and by the generator)
    slot: u32,
    nhandles: u32,
    /// some handle id that pointed here when it was created (may be dead; generator convenience)
    hint: usize,
}

#[derive(Clone, Debug, Default)]
struct CollectInfo {
    reachable: usize,
    reclaimed: usize,
    /// some survivor is only reachable through a link path of length >= 2
    deep: bool,
}

#[derive(Default)]
struct Applied {
    new_handle: Option<usize>,
    new_guard: Option<usize>,
    new_obj: Option<u32>,
    collected: Option<CollectInfo>,
    unguard: Option<bool>,
    sched_mismatch: bool,
}

#[derive(Clone, Debug)]
struct Model {
    heap_refs: u32,
    thr: usize,
    net: usize,
    objs: Vec<MObj>,
    /// not yet reclaimed objects
    alive: Vec<u32>,
    guards: Vec<Option<Vec<u32>>>,
    live_guards: usize,
    handles: Vec<Option<u32>>,
    // predicted slot assignment (free list is a LIFO stack, sweep pushes in slot order)
    nslots: u32,
    free: Vec<u32>,
    slot_tenant: Vec<u32>,
    // reachability cache (epoch stamped)
    reach_ok: bool,
    epoch: u32,
    mark: Vec<u32>,
    depth: Vec<u32>,
    queue: VecDeque<u32>,
    // history facts
    nt_collect: bool,
    pred_reuses: u64,
    collections: u64,
    reclaimed_total: u64,
}

impl Model {
    fn new() -> Model {
        Model {
            heap_refs: 1,
            thr: 100,
            net: 0,
            objs: vec![],
            alive: vec![],
            guards: vec![],
            live_guards: 0,
            handles: vec![],
            nslots: 0,
            free: vec![],
            slot_tenant: vec![],
            reach_ok: true,
            epoch: 1,
            mark: vec![],
            depth: vec![],
            queue: VecDeque::new(),
            nt_collect: false,
            pred_reuses: 0,
            collections: 0,
            reclaimed_total: 0,
        }
    }
    #[inline]
    fn heap_alive(&self) -> bool {
        self.heap_refs > 0
    }
    #[inline]
    fn guard_live(&self, g: usize) -> bool {
        matches!(self.guards.get(g), Some(Some(_)))
    }
    #[inline]
    fn handle_obj(&self, h: usize) -> Option<u32> {
        self.handles.get(h).copied().flatten()
    }
    /// handle exists and may be read/written: its object was reachable at every collection point so far
    #[inline]
    fn valid(&self, h: usize) -> Option<u32> {
        let o = self.handle_obj(h)?;
        if self.heap_alive() && !self.objs[o as usize].reclaimed {
            Some(o)
        } else {
            None
        }
    }
    #[inline]
    fn stale(&self, h: usize) -> bool {
        matches!(self.handle_obj(h), Some(o) if self.objs[o as usize].reclaimed)
    }

    fn ensure_reach(&mut self) {
        if self.reach_ok {
            return;
        }
        self.epoch += 1;
        let e = self.epoch;
        self.mark.resize(self.objs.len(), 0);
        self.depth.resize(self.objs.len(), 0);
        let mut q = std::mem::take(&mut self.queue);
        q.clear();
        for roots in self.guards.iter().flatten() {
            for &o in roots {
                let i = o as usize;
                if self.mark[i] != e {
                    self.mark[i] = e;
                    self.depth[i] = 0;
                    q.push_back(o);
                }
            }
        }
        while let Some(o) = q.pop_front() {
            let d = self.depth[o as usize];
            for &c in &self.objs[o as usize].refs {
                let i = c as usize;
                if self.mark[i] != e {
                    self.mark[i] = e;
                    self.depth[i] = d + 1;
                    q.push_back(c);
                }
            }
        }
        self.queue = q;
        self.reach_ok = true;
    }
    /// only meaningful after `ensure_reach`
    #[inline]
    fn reachable(&self, o: u32) -> bool {
        self.mark[o as usize] == self.epoch
    }

    /// A collection point: everything not reachable from a live guard is reclaimed.
    fn collect(&mut self) -> CollectInfo {
        self.reach_ok = false;
        self.ensure_reach();
        let mut info = CollectInfo::default();
        let mut alive = std::mem::take(&mut self.alive);
        let mut dead: Vec<u32> = vec![];
        alive.retain(|&o| {
            let i = o as usize;
            if self.mark[i] == self.epoch {
                info.reachable += 1;
                if self.depth[i] >= 2 {
                    info.deep = true;
                }
                true
            } else {
                dead.push(o);
                false
            }
        });
        self.alive = alive;
        dead.sort_by_key(|&o| self.objs[o as usize].slot);
        for o in dead {
            let ob = &mut self.objs[o as usize];
            ob.reclaimed = true;
            ob.refs.clear();
            ob.value = 0;
            self.free.push(ob.slot);
            info.reclaimed += 1;
        }
        self.net = 0;
        self.collections += 1;
        self.reclaimed_total += info.reclaimed as u64;
        if info.reclaimed >= 1 && info.deep {
            self.nt_collect = true;
        }
        info
    }

    /// executor only: the heap handed out the slot of `o` although no collection point reclaimed it.
    /// Allowed by the property iff `o` is unreachable now; the model then treats it as reclaimed.
    fn force_reclaim(&mut self, o: u32) {
        let ob = &mut self.objs[o as usize];
        ob.reclaimed = true;
        ob.refs.clear();
        ob.value = 0;
        self.alive.retain(|&x| x != o);
        self.reach_ok = false;
    }

    fn enabled(&self, op: &Op) -> bool {
        let alive = self.heap_alive();
        match *op {
            Op::NewGuard | Op::Collect | Op::Threshold(_) | Op::HeapClone => alive,
            Op::HeapDrop => self.heap_refs >= 1,
            Op::DropGuard(g) | Op::Clear(g) => self.guard_live(g),
            Op::Alloc(g) => alive && self.guard_live(g),
            Op::Link(a, b) => self.valid(a).is_some() && self.valid(b).is_some(),
            Op::Unlink(a, i) | Op::Load(a, i) => match self.valid(a) {
                Some(o) => i < self.objs[o as usize].refs.len(),
                None => false,
            },
            Op::GuardClone(g, h) | Op::GuardMove(g, h) => self.guard_live(g) && self.handle_obj(h).is_some(),
            Op::Unguard(g, h) => {
                // a stale handle is inert while the heap lives; after the heap is gone `unguard`
                // compares addresses only, so it is issued for handles that never went stale
                self.guard_live(g) && self.handle_obj(h).is_some() && (alive || !self.stale(h))
            }
            Op::CloneH(h) | Op::DropH(h) => self.handle_obj(h).is_some(),
            Op::Write(h, _) => self.valid(h).is_some(),
        }
    }

    /// consume the indices an op would have created (used when the executor has to skip an op)
    fn skip(&mut self, op: &Op) {
        match op {
            Op::NewGuard => self.guards.push(None),
            Op::Alloc(_) | Op::CloneH(_) | Op::Load(..) => self.handles.push(None),
            _ => {}
        }
    }

    /// `auto`: observed "a collection ran inside this alloc" (executor) or None (= documented rule:
    /// collect before allocating when threshold > 0 and net_allocs >= threshold).
    fn apply(&mut self, op: &Op, auto: Option<bool>) -> Applied {
        let mut out = Applied::default();
        match *op {
            Op::NewGuard => {
                self.guards.push(Some(vec![]));
                self.live_guards += 1;
                out.new_guard = Some(self.guards.len() - 1);
            }
            Op::DropGuard(g) => {
                if let Some(r) = self.guards[g].take() {
                    if !r.is_empty() {
                        self.reach_ok = false;
                    }
                }
                self.live_guards -= 1;
            }
            Op::Alloc(g) => {
                self.net += 1;
                let predicted = self.thr > 0 && self.net >= self.thr;
                let run = auto.unwrap_or(predicted);
                out.sched_mismatch = run != predicted;
                if run {
                    out.collected = Some(self.collect());
                }
                let slot = match self.free.pop() {
                    Some(s) => {
                        self.pred_reuses += 1;
                        s
                    }
                    None => {
                        self.nslots += 1;
                        self.slot_tenant.push(NONE);
                        self.nslots - 1
                    }
                };
                let o = self.objs.len() as u32;
                let h = self.handles.len();
                self.objs.push(MObj { value: 0, refs: vec![], reclaimed: false, slot, nhandles: 1, hint: h });
                self.alive.push(o);
                self.slot_tenant[slot as usize] = o;
                if let Some(r) = self.guards[g].as_mut() {
                    r.push(o);
                }
                self.handles.push(Some(o));
                // a fresh rooted object: reachable at depth 0 whatever the cache state
                self.mark.resize(self.objs.len() - 1, 0);
                self.depth.resize(self.objs.len() - 1, 0);
                self.mark.push(self.epoch);
                self.depth.push(0);
                out.new_handle = Some(h);
                out.new_obj = Some(o);
            }
            Op::Link(a, b) => {
                let (oa, ob) = (self.handle_obj(a).unwrap_or(0), self.handle_obj(b).unwrap_or(0));
                self.objs[oa as usize].refs.push(ob);
                // a link only adds reachability: the cache stays valid unless it makes `b` newly reachable
                if self.reach_ok && self.reachable(oa) && !self.reachable(ob) {
                    self.reach_ok = false;
                }
            }
            Op::Unlink(a, i) => {
                let oa = self.handle_obj(a).unwrap_or(0);
                self.objs[oa as usize].refs.remove(i);
                self.reach_ok = false;
            }
            Op::GuardClone(g, h) | Op::GuardMove(g, h) => {
                let o = self.handle_obj(h).unwrap_or(0);
                if self.heap_alive() && !self.objs[o as usize].reclaimed {
                    if let Some(r) = self.guards[g].as_mut() {
                        r.push(o);
                    }
                    if self.reach_ok && !self.reachable(o) {
                        self.reach_ok = false;
                    }
                }
                if matches!(op, Op::GuardMove(..)) {
                    self.handles[h] = None;
                    self.objs[o as usize].nhandles -= 1;
                }
            }
            Op::Unguard(g, h) => {
                let o = self.handle_obj(h).unwrap_or(0);
                let mut found = false;
                if !self.objs[o as usize].reclaimed {
                    if let Some(r) = self.guards[g].as_mut() {
                        if let Some(p) = r.iter().position(|x| *x == o) {
                            r.swap_remove(p);
                            found = true;
                            self.reach_ok = false;
                        }
                    }
                }
                out.unguard = Some(found);
            }
            Op::Clear(g) => {
                if let Some(r) = self.guards[g].as_mut() {
                    if !r.is_empty() {
                        self.reach_ok = false;
                    }
                    r.clear();
                }
            }
            Op::CloneH(h) => {
                let o = self.handle_obj(h).unwrap_or(0);
                self.handles.push(Some(o));
                let ob = &mut self.objs[o as usize];
                ob.nhandles += 1;
                ob.hint = self.handles.len() - 1;
                out.new_handle = Some(self.handles.len() - 1);
            }
            Op::DropH(h) => {
                let o = self.handle_obj(h).unwrap_or(0);
                self.handles[h] = None;
                self.objs[o as usize].nhandles -= 1;
            }
            Op::Load(h, i) => {
                let o = self.handle_obj(h).unwrap_or(0);
                let c = self.objs[o as usize].refs[i];
                self.handles.push(Some(c));
                let ob = &mut self.objs[c as usize];
                ob.nhandles += 1;
                ob.hint = self.handles.len() - 1;
                out.new_handle = Some(self.handles.len() - 1);
            }
            Op::Write(h, v) => {
                let o = self.handle_obj(h).unwrap_or(0);
                self.objs[o as usize].value = v;
            }
            Op::Collect => {
                out.collected = Some(self.collect());
            }
            Op::Threshold(t) => self.thr = t,
            Op::HeapClone => self.heap_refs += 1,
            Op::HeapDrop => self.heap_refs -= 1,
        }
        out
    }

    /// Canonical byte encoding of the abstract state (bounded enumeration only): model state +
    /// predicted slot assignment + free-list order; handles of one object are interchangeable,
    /// guards are interchangeable, payload is abstracted to zero / non-zero.
    fn canon(&self) -> Vec<u8> {
        let mut k: Vec<u8> = Vec::with_capacity(48);
        k.push(self.heap_refs as u8);
        k.push(self.thr.min(255) as u8);
        k.push(self.net.min(255) as u8);
        k.push(self.nslots as u8);
        k.push(self.free.len() as u8);
        k.extend(self.free.iter().map(|s| *s as u8));
        k.push(self.objs.len() as u8);
        for o in &self.objs {
            if o.reclaimed && o.nhandles == 0 {
                k.push(0xFF);
                continue;
            }
            k.push(o.slot as u8);
            k.push(o.reclaimed as u8 | ((o.value != 0) as u8) << 1);
            k.push(o.nhandles as u8);
            k.push(o.refs.len() as u8);
            k.extend(o.refs.iter().map(|r| *r as u8));
        }
        let mut gs: Vec<Vec<u8>> = self
            .guards
            .iter()
            .flatten()
            .map(|r| {
                let mut v: Vec<u8> = r.iter().map(|x| *x as u8).collect();
                v.sort_unstable();
                v
            })
            .collect();
        gs.sort();
        k.push(0xFE);
        for g in gs {
            k.push(g.len() as u8);
            k.extend(g);
        }
        k
    }
}

// ---------------------------------------------------------------------------------------------
// executor: model and real heap in lock-step
// ---------------------------------------------------------------------------------------------
#[derive(Debug, Clone)]
struct Failure {
    sig: &'static str,
    msg: String,
}

fn fail<T>(sig: &'static str, msg: String) -> Result<T, Failure> {
    Err(Failure { sig, msg })
}

#[derive(Clone, Copy, PartialEq, Eq)]
enum Checks {
    /// full content check after every operation (bounded enumeration, replays of short histories)
    EveryOp,
    /// touched objects after every operation, everything after each collection, every 128 ops and at the end
    Periodic,
    /// nothing (prefix of an enumerated history that was already checked as its own history)
    Off,
}

struct Runner {
    m: Model,
    heaps: Vec<Heap<Node>>,
    guards: Vec<Option<Guard<Node>>>,
    handles: Vec<Option<Gc<Node>>>,
    /// real identity (address) of every model object
    ids: Vec<usize>,
    /// current tenant of every address handed out so far
    tenant: HashMap<usize, u32>,
    reuses: u64,
    skipped: u64,
    sched_mismatch: u64,
    since_full: usize,
    full_checks: u64,
    objects_compared: u64,
    // scratch for the traversal
    seen: Vec<u32>,
    seen_epoch: u32,
}

impl Runner {
    fn new() -> Runner {
        Runner {
            m: Model::new(),
            heaps: vec![Heap::new()],
            guards: vec![],
            handles: vec![],
            ids: vec![],
            tenant: HashMap::new(),
            reuses: 0,
            skipped: 0,
            sched_mismatch: 0,
            since_full: 0,
            full_checks: 0,
            objects_compared: 0,
            seen: vec![],
            seen_epoch: 0,
        }
    }

    fn nontrivial(&self) -> bool {
        self.m.nt_collect || self.reuses > 0
    }

    fn compare_node(&self, gc: &Gc<Node>, o: u32, via: &str) -> Result<(), Failure> {
        let mo = &self.m.objs[o as usize];
        if gc.id() != self.ids[o as usize] {
            return fail("c13:identity", format!("object #{} ({}) changed identity: {:#x} -> {:#x}", o, via, self.ids[o as usize], gc.id()));
        }
        let n = gc.borrow();
        if n.value != mo.value {
            return fail(
                "c13:content-payload",
                format!("object #{} ({}) is reachable from a live guard but its payload is {} (model: {})", o, via, n.value, mo.value),
            );
        }
        if n.refs.len() != mo.refs.len() {
            return fail(
                "c13:content-links",
                format!("object #{} ({}) is reachable from a live guard but has {} links (model: {})", o, via, n.refs.len(), mo.refs.len()),
            );
        }
        for (i, r) in n.refs.iter().enumerate() {
            let want = self.ids[mo.refs[i] as usize];
            if r.id() != want {
                return fail(
                    "c13:content-links",
                    format!("object #{} ({}) link {} points at {:#x}, model says object #{} at {:#x}", o, via, i, r.id(), mo.refs[i], want),
                );
            }
        }
        Ok(())
    }

    /// Compare every model-reachable object that can be read: through a valid handle of the handle
    /// table or through links of such an object. Valid but unreachable objects are only touched.
    fn check_full(&mut self) -> Result<(), Failure> {
        self.full_checks += 1;
        self.since_full = 0;
        if !self.m.heap_alive() {
            return self.check_guard_lens();
        }
        self.m.ensure_reach();
        self.seen_epoch += 1;
        let e = self.seen_epoch;
        self.seen.resize(self.m.objs.len(), 0);
        let mut stack: Vec<(u32, Gc<Node>)> = vec![];
        for h in 0..self.handles.len() {
            let Some(gc) = self.handles[h].as_ref() else { continue };
            let Some(o) = self.m.valid(h) else { continue };
            if !self.m.reachable(o) {
                // valid, but nothing is promised about its contents: read it (memory-safety only)
                let n = gc.borrow();
                std::hint::black_box((n.value, n.refs.len()));
                continue;
            }
            if self.seen[o as usize] == e {
                // another handle to an object already compared: identity only
                if gc.id() != self.ids[o as usize] {
                    return fail("c13:identity", format!("handle {} of object #{} has address {:#x}, expected {:#x}", h, o, gc.id(), self.ids[o as usize]));
                }
                continue;
            }
            self.seen[o as usize] = e;
            self.compare_node(gc, o, "via handle")?;
            self.objects_compared += 1;
            let n = gc.borrow();
            for (i, r) in n.refs.iter().enumerate() {
                let c = self.m.objs[o as usize].refs[i];
                if self.seen[c as usize] != e {
                    self.seen[c as usize] = e;
                    stack.push((c, r.clone()));
                }
            }
        }
        while let Some((o, gc)) = stack.pop() {
            self.compare_node(&gc, o, "via link path")?;
            self.objects_compared += 1;
            let n = gc.borrow();
            for (i, r) in n.refs.iter().enumerate() {
                let c = self.m.objs[o as usize].refs[i];
                if self.seen[c as usize] != e {
                    self.seen[c as usize] = e;
                    stack.push((c, r.clone()));
                }
            }
        }
        self.check_guard_lens()
    }

    fn check_guard_lens(&self) -> Result<(), Failure> {
        for (g, gd) in self.guards.iter().enumerate() {
            if let (Some(gd), Some(Some(r))) = (gd.as_ref(), self.m.guards.get(g)) {
                if gd.len() != r.len() {
                    return fail("c13:guard-roots", format!("guard {} holds {} roots, model multiset has {}", g, gd.len(), r.len()));
                }
            }
        }
        Ok(())
    }

    /// cheap check of the object behind handle `h` (only when the reachability cache is current)
    fn check_handle(&mut self, h: usize) -> Result<(), Failure> {
        let Some(o) = self.m.valid(h) else { return Ok(()) };
        let Some(gc) = self.handles.get(h).and_then(|x| x.as_ref()) else { return Ok(()) };
        if self.m.reach_ok && self.m.reachable(o) {
            self.objects_compared += 1;
            self.compare_node(gc, o, "via handle")
        } else {
            let n = gc.borrow();
            std::hint::black_box((n.value, n.refs.len()));
            Ok(())
        }
    }

    fn check_stats_after_collection(&self, info: &CollectInfo, extra: usize, what: &str) -> Result<(), Failure> {
        let Some(heap) = self.heaps.first() else { return Ok(()) };
        let st = heap.stats();
        if st.pooled_objects + st.live_objects != st.total_objects {
            return fail("c13:stats-sum", format!("{}: pooled {} + live {} != total {}", what, st.pooled_objects, st.live_objects, st.total_objects));
        }
        if st.live_objects != info.reachable + extra {
            return fail(
                "c13:live-count",
                format!(
                    "{}: stats().live_objects = {} but {} objects are reachable from live guards{} (model reclaimed {} at this collection)",
                    what,
                    st.live_objects,
                    info.reachable,
                    if extra > 0 { " (+1 just allocated)" } else { "" },
                    info.reclaimed
                ),
            );
        }
        Ok(())
    }

    fn step(&mut self, op: &Op, checks: Checks) -> Result<(), Failure> {
        if !self.m.enabled(op) {
            // the case was rendered against a different collection schedule (or edited by hand):
            // never use a handle the model does not consider usable
            self.skipped += 1;
            self.m.skip(op);
            match op {
                Op::NewGuard => self.guards.push(None),
                Op::Alloc(_) | Op::CloneH(_) | Op::Load(..) => self.handles.push(None),
                _ => {}
            }
            return Ok(());
        }
        let mut touched: [Option<usize>; 2] = [None, None];
        match *op {
            Op::NewGuard => {
                let g = self.heaps[0].create_guard();
                self.guards.push(Some(g));
                self.m.apply(op, None);
            }
            Op::DropGuard(g) => {
                drop(self.guards[g].take());
                self.m.apply(op, None);
            }
            Op::Alloc(g) => {
                let before = tsrun::verif_hooks::collections();
                let gc = match self.guards[g].as_ref() {
                    Some(gd) => gd.alloc(),
                    None => return fail("c13:harness", "guard table out of sync".into()),
                };
                let ran = tsrun::verif_hooks::collections() - before;
                if ran > 1 {
                    return fail("c13:harness", format!("{} collections inside one alloc", ran));
                }
                let id = gc.id();
                let prev = self.tenant.get(&id).copied();
                // the collection (if any) ran before the slot was chosen, so the model collects first
                let a = self.m.apply(op, Some(ran == 1));
                if a.sched_mismatch {
                    self.sched_mismatch += 1;
                }
                self.tenant.insert(id, a.new_obj.unwrap_or(0));
                self.ids.push(id);
                self.handles.push(Some(gc));
                touched[0] = a.new_handle;
                if let Some(prev) = prev {
                    // a slot is handed out again only if its previous tenant was unreachable
                    if !self.m.objs[prev as usize].reclaimed {
                        self.m.ensure_reach();
                        if self.m.reachable(prev) {
                            return fail(
                                "c13:slot-reuse-live",
                                format!("alloc handed out slot {:#x} whose tenant, object #{}, is still reachable from a live guard", id, prev),
                            );
                        }
                        self.m.force_reclaim(prev);
                    }
                    self.reuses += 1;
                }
                if let Some(info) = a.collected.as_ref() {
                    self.check_stats_after_collection(info, 1, "after the collection inside alloc")?;
                    // the live count was just compared; the (linear) content comparison is rate-limited
                    // in long histories, otherwise threshold 1 makes a burst of n allocations cost n^2
                    if checks == Checks::EveryOp || (checks == Checks::Periodic && self.since_full >= 24) {
                        self.check_full()?;
                    }
                }
                if let Some(gd) = self.guards[g].as_ref() {
                    let want = self.m.guards[g].as_ref().map(|r| r.len()).unwrap_or(0);
                    if gd.len() != want {
                        return fail("c13:guard-roots", format!("guard {} holds {} roots after alloc, model multiset has {}", g, gd.len(), want));
                    }
                }
            }
            Op::Link(a, b) => {
                let (Some(ha), Some(hb)) = (self.handles[a].as_ref(), self.handles[b].as_ref()) else {
                    return fail("c13:harness", "handle table out of sync".into());
                };
                let c = hb.clone();
                ha.borrow_mut().refs.push(c);
                self.m.apply(op, None);
                touched = [Some(a), Some(b)];
            }
            Op::Unlink(a, i) => {
                let Some(ha) = self.handles[a].as_ref() else { return fail("c13:harness", "handle table out of sync".into()) };
                let removed = {
                    let mut n = ha.borrow_mut();
                    if i >= n.refs.len() {
                        drop(n);
                        return fail("c13:content-links", format!("handle {}: link {} does not exist although the model object has it", a, i));
                    }
                    n.refs.remove(i)
                };
                drop(removed);
                self.m.apply(op, None);
                touched[0] = Some(a);
            }
            Op::GuardClone(g, h) => {
                let (Some(gd), Some(hd)) = (self.guards[g].as_ref(), self.handles[h].as_ref()) else {
                    return fail("c13:harness", "tables out of sync".into());
                };
                gd.guard(hd.clone());
                self.m.apply(op, None);
                self.check_one_guard_len(g, "guard(h.clone())")?;
                touched[0] = Some(h);
            }
            Op::GuardMove(g, h) => {
                let (Some(gd), Some(hd)) = (self.guards[g].as_ref(), self.handles[h].take()) else {
                    return fail("c13:harness", "tables out of sync".into());
                };
                gd.guard(hd);
                self.m.apply(op, None);
                self.check_one_guard_len(g, "guard(h)")?;
            }
            Op::Unguard(g, h) => {
                let (Some(gd), Some(hd)) = (self.guards[g].as_ref(), self.handles[h].as_ref()) else {
                    return fail("c13:harness", "tables out of sync".into());
                };
                let got = gd.unguard(hd);
                let a = self.m.apply(op, None);
                if Some(got) != a.unguard {
                    return fail(
                        "c13:unguard-result",
                        format!("guard {}.unguard(handle {}) returned {} but the model multiset says {:?}", g, h, got, a.unguard),
                    );
                }
                self.check_one_guard_len(g, "unguard")?;
                touched[0] = Some(h);
            }
            Op::Clear(g) => {
                if let Some(gd) = self.guards[g].as_ref() {
                    gd.clear();
                }
                self.m.apply(op, None);
                self.check_one_guard_len(g, "clear")?;
            }
            Op::CloneH(h) => {
                let Some(hd) = self.handles[h].as_ref() else { return fail("c13:harness", "handle table out of sync".into()) };
                let c = hd.clone();
                self.handles.push(Some(c));
                let a = self.m.apply(op, None);
                touched = [Some(h), a.new_handle];
            }
            Op::DropH(h) => {
                // the current tenant of that address is what a stale drop could damage
                let victim = self.handles[h].as_ref().and_then(|x| self.tenant.get(&x.id()).copied());
                drop(self.handles[h].take());
                self.m.apply(op, None);
                if let Some(v) = victim {
                    touched[0] = Some(self.m.objs[v as usize].hint);
                }
            }
            Op::Load(h, i) => {
                let Some(hd) = self.handles[h].as_ref() else { return fail("c13:harness", "handle table out of sync".into()) };
                let c = {
                    let n = hd.borrow();
                    match n.refs.get(i) {
                        Some(r) => r.clone(),
                        None => {
                            drop(n);
                            return fail("c13:content-links", format!("handle {}: link {} does not exist although the model object has it", h, i));
                        }
                    }
                };
                self.handles.push(Some(c));
                let a = self.m.apply(op, None);
                touched = [Some(h), a.new_handle];
            }
            Op::Write(h, v) => {
                let Some(hd) = self.handles[h].as_ref() else { return fail("c13:harness", "handle table out of sync".into()) };
                hd.borrow_mut().value = v;
                self.m.apply(op, None);
                touched[0] = Some(h);
            }
            Op::Collect => {
                let before = tsrun::verif_hooks::collections();
                self.heaps[0].collect();
                let ran = tsrun::verif_hooks::collections() - before;
                if ran != 1 {
                    return fail("c13:harness", format!("collect() ran {} collections", ran));
                }
                let a = self.m.apply(op, None);
                if let Some(info) = a.collected.as_ref() {
                    self.check_stats_after_collection(info, 0, "after collect()")?;
                }
                if checks == Checks::EveryOp || (checks == Checks::Periodic && self.since_full >= 8) {
                    self.check_full()?;
                }
            }
            Op::Threshold(t) => {
                self.heaps[0].set_gc_threshold(t);
                self.m.apply(op, None);
            }
            Op::HeapClone => {
                let c = self.heaps[0].clone();
                self.heaps.push(c);
                self.m.apply(op, None);
            }
            Op::HeapDrop => {
                drop(self.heaps.pop());
                self.m.apply(op, None);
            }
        }
        match checks {
            Checks::Off => {}
            Checks::EveryOp => self.check_full()?,
            Checks::Periodic => {
                self.since_full += 1;
                if self.since_full >= 128 {
                    self.check_full()?;
                } else {
                    for h in touched.into_iter().flatten() {
                        self.check_handle(h)?;
                    }
                }
            }
        }
        Ok(())
    }

    fn check_one_guard_len(&self, g: usize, what: &str) -> Result<(), Failure> {
        if let (Some(Some(gd)), Some(Some(r))) = (self.guards.get(g).map(|x| x.as_ref()), self.m.guards.get(g)) {
            if gd.len() != r.len() {
                return fail("c13:guard-roots", format!("guard {} holds {} roots after {}, model multiset has {}", g, gd.len(), what, r.len()));
            }
        }
        Ok(())
    }

    /// Drop what is left in one of the six possible orders.
    fn teardown(self, order: u64) {
        let Runner { heaps, guards, handles, .. } = self;
        match order % 6 {
            0 => {
                drop(handles);
                drop(guards);
                drop(heaps);
            }
            1 => {
                drop(heaps);
                drop(guards);
                drop(handles);
            }
            2 => {
                drop(guards);
                drop(heaps);
                drop(handles);
            }
            3 => {
                drop(handles);
                drop(heaps);
                drop(guards);
            }
            4 => {
                drop(heaps);
                drop(handles);
                drop(guards);
            }
            _ => {
                drop(guards);
                drop(handles);
                drop(heaps);
            }
        }
    }
}

// ---------------------------------------------------------------------------------------------
// "what was running" note for sanitizer deaths
// ---------------------------------------------------------------------------------------------
// An AddressSanitizer report ends the worker process; the supervisor then only knows the journaled
// case, which for an enumeration block is a whole subtree. The sanitizer runtime calls the (weak)
// hook `__asan_on_error` when it detects an error; the strong definition below (an unused exported
// function in non-sanitizer builds) writes the history that was executing as a small replay file
// `replays/C13/asan-death-<pid>.json` and as a stderr line. No allocation happens in the hook.
mod dying {
    use std::sync::atomic::{AtomicBool, AtomicU8, AtomicU64, AtomicUsize, Ordering::Relaxed};
    const CAP: usize = 900;
    const PATH_CAP: usize = 512;
    static TEXT: [AtomicU8; CAP] = [const { AtomicU8::new(0) }; CAP];
    static LEN: AtomicUsize = AtomicUsize::new(0);
    static COMPLETE: AtomicBool = AtomicBool::new(false);
    static TEARDOWN: AtomicU64 = AtomicU64::new(0);
    static OP_INDEX: AtomicUsize = AtomicUsize::new(0);
    static ROOT: [AtomicU8; PATH_CAP] = [const { AtomicU8::new(0) }; PATH_CAP];
    static ROOT_LEN: AtomicUsize = AtomicUsize::new(0);
    static ONCE: std::sync::Once = std::sync::Once::new();

    /// remember where the replay directory is (formatted ahead of time: the hook must not allocate)
    pub fn install() {
        ONCE.call_once(|| {
            let root = crate::core::verif_root();
            let b = root.to_string_lossy().into_owned().into_bytes();
            if b.len() + 64 < PATH_CAP {
                for (i, c) in b.iter().enumerate() {
                    ROOT[i].store(*c, Relaxed);
                }
                ROOT_LEN.store(b.len(), Relaxed);
            }
        });
    }
    pub fn note_history(text: &str, teardown: u64) {
        let b = text.as_bytes();
        let n = b.len().min(CAP);
        for (i, c) in b[..n].iter().enumerate() {
            TEXT[i].store(*c, Relaxed);
        }
        LEN.store(n, Relaxed);
        COMPLETE.store(b.len() <= CAP, Relaxed);
        TEARDOWN.store(teardown, Relaxed);
    }
    #[inline]
    pub fn note_op(i: usize) {
        OP_INDEX.store(i, Relaxed);
    }

    struct Buf {
        b: [u8; CAP + PATH_CAP + 256],
        n: usize,
    }
    impl Buf {
        fn put(&mut self, bytes: &[u8]) {
            for c in bytes {
                if self.n < self.b.len() {
                    self.b[self.n] = *c;
                    self.n += 1;
                }
            }
        }
        fn num(&mut self, mut v: u64) {
            let mut digits = [0u8; 20];
            let mut k = digits.len();
            loop {
                k -= 1;
                digits[k] = b'0' + (v % 10) as u8;
                v /= 10;
                if v == 0 {
                    break;
                }
            }
            let d = digits;
            self.put(&d[k..]);
        }
        fn text(&mut self) {
            let len = LEN.load(Relaxed).min(CAP);
            for t in TEXT.iter().take(len) {
                let c = t.load(Relaxed);
                // the op text is [a-z0-9, ] only; anything else would break the JSON
                if c.is_ascii_alphanumeric() || c == b',' || c == b' ' {
                    self.put(&[c]);
                }
            }
        }
    }

    #[no_mangle]
    pub extern "C" fn __asan_on_error() {
        if LEN.load(Relaxed) == 0 {
            return;
        }
        let mut line = Buf { b: [0; CAP + PATH_CAP + 256], n: 0 };
        line.put(b"C13 sanitizer report while executing op #");
        line.num(OP_INDEX.load(Relaxed) as u64);
        line.put(b" of history: ");
        line.text();
        line.put(b"\n");
        unsafe {
            libc::write(2, line.b.as_ptr() as *const libc::c_void, line.n);
        }
        let rl = ROOT_LEN.load(Relaxed);
        if rl == 0 || !COMPLETE.load(Relaxed) {
            return; // long random history: the journaled case is already exactly this history
        }
        // <root>/replays , <root>/replays/C13 , <root>/replays/C13/asan-death-<pid>.json  (NUL terminated)
        let mut path = Buf { b: [0; CAP + PATH_CAP + 256], n: 0 };
        for r in ROOT.iter().take(rl) {
            path.put(&[r.load(Relaxed)]);
        }
        path.put(b"/replays\0");
        unsafe {
            libc::mkdir(path.b.as_ptr() as *const libc::c_char, 0o755);
        }
        path.n -= 1;
        path.put(b"/C13\0");
        unsafe {
            libc::mkdir(path.b.as_ptr() as *const libc::c_char, 0o755);
        }
        path.n -= 1;
        path.put(b"/asan-death-");
        path.num(unsafe { libc::getpid() } as u64);
        path.put(b".json\0");
        let mut body = Buf { b: [0; CAP + PATH_CAP + 256], n: 0 };
        body.put(b"{\"property\":\"C13\",\"kind\":\"sanitizer-death-note\",\"op_index\":");
        body.num(OP_INDEX.load(Relaxed) as u64);
        body.put(b",\"case\":{\"kind\":\"history\",\"ops\":\"");
        body.text();
        body.put(b"\",\"teardown\":");
        body.num(TEARDOWN.load(Relaxed));
        body.put(b"}}\n");
        unsafe {
            let fd = libc::open(path.b.as_ptr() as *const libc::c_char, libc::O_WRONLY | libc::O_CREAT | libc::O_TRUNC, 0o644);
            if fd >= 0 {
                libc::write(fd, body.b.as_ptr() as *const libc::c_void, body.n);
                libc::close(fd);
            }
        }
    }
}

struct HistResult {
    failure: Option<(usize, Failure)>,
    nontrivial: bool,
    reuses: u64,
    collections: u64,
    reclaimed: u64,
    skipped: u64,
    sched_mismatch: u64,
    objects: usize,
    compared: u64,
    nt_collect: bool,
    /// stale-handle uses seen by the verif-hooks generation stamp (clone/drop of a stale handle)
    stale_events: u64,
}

/// Execute a whole history. `checked_from`: operations before this index run without oracle checks.
fn run_history(ops: &[Op], teardown: u64, checks: Checks, checked_from: usize) -> HistResult {
    // stale handles are used on purpose here: keep the hook's counter, pause its (backtrace-capturing) log
    tsrun::verif_hooks::set_stale_log(false);
    let stale_before = tsrun::verif_hooks::stale_total();
    dying::install();
    let mut r = Runner::new();
    let mut failure = None;
    for (i, op) in ops.iter().enumerate() {
        dying::note_op(i);
        let c = if i < checked_from { Checks::Off } else { checks };
        if let Err(f) = r.step(op, c) {
            failure = Some((i, f));
            break;
        }
    }
    if failure.is_none() && checks != Checks::Off {
        if let Err(f) = r.check_full() {
            failure = Some((ops.len(), f));
        }
    }
    let res = HistResult {
        failure,
        nontrivial: r.nontrivial(),
        reuses: r.reuses,
        collections: r.m.collections,
        reclaimed: r.m.reclaimed_total,
        skipped: r.skipped,
        sched_mismatch: r.sched_mismatch,
        objects: r.m.objs.len(),
        compared: r.objects_compared,
        nt_collect: r.m.nt_collect,
        stale_events: 0,
    };
    dying::note_op(ops.len());
    r.teardown(teardown);
    let mut res = res;
    res.stale_events = tsrun::verif_hooks::stale_total() - stale_before;
    res
}

// ---------------------------------------------------------------------------------------------
// bounded exhaustive enumeration
// ---------------------------------------------------------------------------------------------
const B_GUARDS: usize = 3;
const B_OBJS: usize = 4;
const B_HANDLES_PER_OBJ: u32 = 2;
const B_LINKS_PER_OBJ: usize = 2;
const B_ROOTS_PER_GUARD: usize = 3;
const B_HEAP_REFS: u32 = 2;
const B_THRESHOLDS: [usize; 3] = [0, 1, 2];

/// Every operation of the bounded alphabet that is enabled in `m`. Handles of one object are
/// interchangeable (same address, same generation), so the lowest live handle id represents them.
fn bounded_ops(m: &Model, stale_gated: bool, out: &mut Vec<Op>) {
    out.clear();
    let alive = m.heap_alive();
    if alive {
        if m.live_guards < B_GUARDS {
            out.push(Op::NewGuard);
        }
        out.push(Op::Collect);
        for t in B_THRESHOLDS {
            if t != m.thr {
                out.push(Op::Threshold(t));
            }
        }
        if m.heap_refs < B_HEAP_REFS {
            out.push(Op::HeapClone);
        }
    }
    if m.heap_refs > 0 {
        out.push(Op::HeapDrop);
    }
    let live_g: Vec<usize> = (0..m.guards.len()).filter(|g| m.guards[*g].is_some()).collect();
    for &g in &live_g {
        out.push(Op::DropGuard(g));
        if m.guards[g].as_ref().map(|r| !r.is_empty()).unwrap_or(false) {
            out.push(Op::Clear(g));
        }
        if alive && m.objs.len() < B_OBJS {
            out.push(Op::Alloc(g));
        }
    }
    // representative handle per object
    let mut rep: Vec<Option<usize>> = vec![None; m.objs.len()];
    for (h, o) in m.handles.iter().enumerate() {
        if let Some(o) = o {
            if rep[*o as usize].is_none() {
                rep[*o as usize] = Some(h);
            }
        }
    }
    for (o, ob) in m.objs.iter().enumerate() {
        let Some(h) = rep[o] else { continue };
        let valid = alive && !ob.reclaimed;
        // a stale handle whose slot has a new tenant: excluded only while the finding is open
        let stale_after_reuse = alive && ob.reclaimed && m.slot_tenant[ob.slot as usize] != o as u32 && !m.free.contains(&ob.slot);
        if stale_gated && stale_after_reuse {
            continue;
        }
        out.push(Op::DropH(h));
        if ob.nhandles < B_HANDLES_PER_OBJ {
            out.push(Op::CloneH(h));
        }
        if valid {
            out.push(Op::Write(h, 0)); // value patched by the caller (depends on the position)
            for i in 0..ob.refs.len() {
                out.push(Op::Unlink(h, i));
                if m.objs[ob.refs[i] as usize].nhandles < B_HANDLES_PER_OBJ {
                    out.push(Op::Load(h, i));
                }
            }
            if ob.refs.len() < B_LINKS_PER_OBJ {
                for (o2, ob2) in m.objs.iter().enumerate() {
                    if let Some(h2) = rep[o2] {
                        if !ob2.reclaimed {
                            out.push(Op::Link(h, h2));
                        }
                    }
                }
            }
        }
        for &g in &live_g {
            let room = m.guards[g].as_ref().map(|r| r.len() < B_ROOTS_PER_GUARD).unwrap_or(false);
            if room {
                out.push(Op::GuardClone(g, h));
                out.push(Op::GuardMove(g, h));
            }
            if alive || !ob.reclaimed {
                out.push(Op::Unguard(g, h));
            }
        }
    }
}

/// Start configurations of the bounded enumeration (each is an op prefix applied to an empty heap)
/// and the depth explored beyond them.
fn start_configs(tier: Tier) -> Vec<(&'static str, &'static str, usize)> {
    vec![
        ("empty", "", tier.pick(5, 7)),
        // one guard, a -> b
        ("pair", "ng al0 al0 ln0,1", tier.pick(5, 6)),
        // chain a -> b -> c, only a rooted (b, c survive through link paths)
        ("chain3", "ng al0 al0 al0 ln0,1 ln1,2 ug0,1 ug0,2", tier.pick(4, 5)),
        // a free slot with two stale handles to it, one live guard
        ("stale", "ng al0 ch0 dg0 co ng", tier.pick(6, 8)),
        // two guards sharing one object, threshold 2
        ("shared", "th2 ng ng al0 gc1,0 al1 ln1,0", tier.pick(4, 5)),
    ]
}

thread_local! {
    /// abstract state hash -> largest remaining depth it was expanded with (per process)
    static VISITED: RefCell<HashMap<u64, u8>> = RefCell::new(HashMap::new());
}

fn model_after(prefix: &[Op]) -> Model {
    let mut m = Model::new();
    for op in prefix {
        if m.enabled(op) {
            m.apply(op, None);
        } else {
            m.skip(op);
        }
    }
    m
}

#[derive(Default)]
struct EnumStats {
    evals: u64,
    nontrivial: u64,
    states: u64,
    failure: Option<(Vec<Op>, u64, usize, Failure)>,
    hist: BTreeMap<&'static str, u64>,
    max_len: usize,
    /// a few of the executed histories, rendered (non-trivial ones preferred), for the evidence samples
    examples: Vec<String>,
}

/// Breadth-first over abstract states from `roots` (op paths); every (state, enabled op) pair whose
/// state is selected by `owns` is executed on a fresh real heap: path + op, full checks on the last op.
/// Returns the frontier after `depth` levels (paths to states not seen before).
fn explore(
    roots: Vec<(Vec<Op>, usize)>,
    levels: usize,
    owns: &dyn Fn(u64, usize) -> bool,
    execute: bool,
    stale_gated: bool,
    st: &mut EnumStats,
) -> Vec<(Vec<Op>, usize)> {
    // frontier entries: (path, remaining depth)
    let mut frontier = roots;
    let mut ops_buf: Vec<Op> = vec![];
    for _level in 0..levels {
        let mut next: Vec<(Vec<Op>, usize)> = vec![];
        let mut pair_index = 0usize;
        for (path, remaining) in frontier.iter() {
            if *remaining == 0 {
                continue;
            }
            let m = model_after(path);
            bounded_ops(&m, stale_gated, &mut ops_buf);
            let ops_here = ops_buf.clone();
            for mut op in ops_here {
                if let Op::Write(h, _) = op {
                    op = Op::Write(h, 1000 + path.len() as u64);
                }
                let mut m2 = m.clone();
                m2.apply(&op, None);
                let key = fnv64(&m2.canon());
                pair_index += 1;
                let mut full = path.clone();
                full.push(op);
                if execute && owns(key, pair_index) {
                    st.evals += 1;
                    *st.hist.entry(op.code()).or_insert(0) += 1;
                    st.max_len = st.max_len.max(full.len());
                    let teardown = st.evals % 6;
                    let plen = path.len();
                    dying::note_history(&render_ops(&full), teardown);
                    let res = guarded(|| run_history(&full, teardown, Checks::EveryOp, plen));
                    match res {
                        Ok(r) => {
                            if r.nontrivial {
                                st.nontrivial += 1;
                                if st.examples.len() < 3 {
                                    st.examples.push(render_ops(&full));
                                }
                            }
                            if let Some((at, f)) = r.failure {
                                if st.failure.is_none() {
                                    st.failure = Some((full.clone(), teardown, at, f));
                                }
                                return next;
                            }
                        }
                        Err(p) => {
                            if st.failure.is_none() {
                                st.failure = Some((full.clone(), teardown, full.len(), Failure { sig: "panic", msg: p }));
                            }
                            return next;
                        }
                    }
                }
                let rem2 = remaining - 1;
                let fresh = VISITED.with(|v| {
                    let mut v = v.borrow_mut();
                    match v.get(&key) {
                        Some(&r) if r as usize >= rem2 => false,
                        _ => {
                            v.insert(key, rem2 as u8);
                            true
                        }
                    }
                });
                if fresh {
                    st.states += 1;
                    if rem2 > 0 {
                        next.push((full, rem2));
                    }
                }
            }
        }
        frontier = next;
        if frontier.is_empty() {
            break;
        }
    }
    frontier
}

/// levels of the global (all shards identical) prefix exploration before subtrees are dealt out
const SPLIT_LEVELS: usize = 2;

fn config_roots(tier: Tier) -> Vec<(Vec<Op>, usize)> {
    start_configs(tier).into_iter().map(|(_, p, d)| (parse_ops(p).unwrap_or_default(), d)).collect()
}

// ---------------------------------------------------------------------------------------------
// random long histories
// ---------------------------------------------------------------------------------------------
struct Gen<'a, 'b> {
    t: &'a mut Tape<'b>,
    m: Model,
    ops: Vec<Op>,
    live_h: Vec<usize>,
    pos_h: Vec<usize>,
    live_g: Vec<usize>,
    stale_h: Vec<usize>,
    max_ops: usize,
    stale_gated: bool,
    excluded: u64,
}

impl<'a, 'b> Gen<'a, 'b> {
    fn emit(&mut self, op: Op) -> Option<Applied> {
        if self.ops.len() >= self.max_ops || !self.m.enabled(&op) {
            return None;
        }
        if self.stale_gated {
            // open finding: never use a stale handle whose slot has been handed out again
            let h = match op {
                Op::DropH(h) | Op::CloneH(h) | Op::GuardClone(_, h) | Op::GuardMove(_, h) | Op::Unguard(_, h) => Some(h),
                _ => None,
            };
            if let Some(o) = h.and_then(|h| self.m.handle_obj(h)) {
                let ob = &self.m.objs[o as usize];
                if ob.reclaimed && self.m.heap_alive() && self.m.slot_tenant[ob.slot as usize] != o && !self.m.free.contains(&ob.slot) {
                    self.excluded += 1;
                    return None;
                }
            }
        }
        let a = self.m.apply(&op, None);
        self.ops.push(op);
        match op {
            Op::DropH(h) | Op::GuardMove(_, h) => self.forget_handle(h),
            Op::DropGuard(g) => self.live_g.retain(|x| *x != g),
            _ => {}
        }
        if let Some(h) = a.new_handle {
            self.pos_h.resize(h + 1, usize::MAX);
            self.pos_h[h] = self.live_h.len();
            self.live_h.push(h);
        }
        if let Some(g) = a.new_guard {
            self.live_g.push(g);
        }
        if let Some(info) = a.collected.as_ref() {
            if info.reclaimed > 0 {
                // remember the handles that just went stale
                for &h in &self.live_h {
                    if self.m.stale(h) && self.stale_h.len() < 4096 {
                        self.stale_h.push(h);
                    }
                }
                self.stale_h.sort_unstable();
                self.stale_h.dedup();
            }
        }
        Some(a)
    }
    fn forget_handle(&mut self, h: usize) {
        let p = self.pos_h.get(h).copied().unwrap_or(usize::MAX);
        if p == usize::MAX {
            return;
        }
        let last = self.live_h.len() - 1;
        self.live_h.swap(p, last);
        let moved = self.live_h[p];
        self.pos_h[moved] = p;
        self.live_h.pop();
        self.pos_h[h] = usize::MAX;
    }
    fn any_handle(&mut self) -> Option<usize> {
        if self.live_h.is_empty() {
            return None;
        }
        let i = self.t.below(self.live_h.len());
        Some(self.live_h[i])
    }
    fn valid_handle(&mut self) -> Option<usize> {
        for _ in 0..4 {
            let h = self.any_handle()?;
            if self.m.valid(h).is_some() {
                return Some(h);
            }
        }
        None
    }
    /// prefers recently created handles (locality makes structures deeper)
    fn recent_valid_handle(&mut self) -> Option<usize> {
        if self.live_h.is_empty() {
            return None;
        }
        let n = self.live_h.len();
        let w = n.min(24);
        for _ in 0..3 {
            let h = self.live_h[n - 1 - self.t.below(w)];
            if self.m.valid(h).is_some() {
                return Some(h);
            }
        }
        self.valid_handle()
    }
    fn stale_handle(&mut self) -> Option<usize> {
        for _ in 0..4 {
            if self.stale_h.is_empty() {
                return None;
            }
            let i = self.t.below(self.stale_h.len());
            let h = self.stale_h[i];
            if self.m.stale(h) {
                return Some(h);
            }
            self.stale_h.swap_remove(i);
        }
        None
    }
    fn guard(&mut self) -> Option<usize> {
        if self.live_g.is_empty() {
            self.emit(Op::NewGuard)?;
        }
        let i = self.t.below(self.live_g.len());
        self.live_g.get(i).copied()
    }
    /// a live handle to object `o`, if the generator knows one
    fn handle_of(&self, o: u32) -> Option<usize> {
        let h = self.m.objs[o as usize].hint;
        if self.m.handle_obj(h) == Some(o) {
            Some(h)
        } else {
            None
        }
    }
    fn size(&mut self, big: bool) -> usize {
        // small first; the big classes cross the 256-slot chunk boundary
        let class = if big { self.t.weighted(&[2, 3, 3, 2]) } else { self.t.weighted(&[6, 3, 1, 0]) };
        match class {
            0 => 1 + self.t.below(4),
            1 => 4 + self.t.below(12),
            2 => 16 + self.t.below(80),
            _ => 96 + self.t.below(420),
        }
    }

    /// allocate `k` objects into one guard, wire them, then (maybe) leave them reachable only through links
    fn build(&mut self, big: bool) {
        let Some(g) = self.guard() else { return };
        let k = self.size(big);
        let shape = self.t.below(6);
        let hub = if shape == 2 || shape == 4 { self.recent_valid_handle() } else { None };
        let mut made: Vec<usize> = Vec::with_capacity(k);
        for i in 0..k {
            let Some(a) = self.emit(Op::Alloc(g)) else { break };
            let Some(h) = a.new_handle else { break };
            // handles of this burst may have gone stale by an automatic collection: emit() re-validates
            match shape {
                1 | 5 => {
                    // chain (5: closed into a ring at the end)
                    if let Some(&p) = made.last() {
                        self.emit(Op::Link(p, h));
                    }
                }
                2 => {
                    if let Some(hub) = hub {
                        self.emit(Op::Link(hub, h));
                    }
                }
                3 => {
                    // tree / diamond-ish: link from one or two earlier objects of the burst
                    if !made.is_empty() {
                        let p = made[self.t.below(made.len())];
                        self.emit(Op::Link(p, h));
                        if i >= 2 && self.t.chance(1, 2) {
                            let q = made[self.t.below(made.len())];
                            self.emit(Op::Link(q, h));
                        }
                    }
                }
                4 => {
                    if let Some(hub) = hub {
                        self.emit(Op::Link(h, hub));
                        if self.t.chance(1, 2) {
                            self.emit(Op::Link(hub, h));
                        }
                    }
                }
                _ => {}
            }
            if self.t.chance(1, 3) {
                let v = self.ops.len() as u64 + 1;
                self.emit(Op::Write(h, v));
            }
            made.push(h);
        }
        if shape == 5 && made.len() >= 2 {
            self.emit(Op::Link(made[made.len() - 1], made[0]));
        }
        if made.is_empty() {
            return;
        }
        // leave only the head rooted so that the rest survives through link paths only
        let unroot = self.t.below(4);
        if unroot >= 1 && shape != 0 {
            let keep = if unroot == 3 { usize::MAX } else { 0 };
            for (i, &h) in made.iter().enumerate() {
                if i != keep {
                    self.emit(Op::Unguard(g, h));
                }
            }
        }
        match self.t.below(4) {
            0 => {}
            1 => {
                for &h in made.iter().skip(1) {
                    self.emit(Op::DropH(h));
                }
            }
            2 => {
                for &h in made.iter().step_by(2) {
                    self.emit(Op::DropH(h));
                }
            }
            _ => {
                for &h in &made {
                    self.emit(Op::DropH(h));
                }
            }
        }
    }

    fn unroot(&mut self) {
        if self.live_g.is_empty() {
            return;
        }
        let g = self.live_g[self.t.below(self.live_g.len())];
        match self.t.weighted(&[4, 2, 2]) {
            0 => {
                // unguard up to k roots for which a handle is known
                let k = 1 + self.t.below(6);
                for _ in 0..k {
                    let n = self.m.guards[g].as_ref().map(|r| r.len()).unwrap_or(0);
                    if n == 0 {
                        break;
                    }
                    let o = self.m.guards[g].as_ref().map(|r| r[self.t.below(n)]).unwrap_or(0);
                    match self.handle_of(o) {
                        Some(h) => {
                            self.emit(Op::Unguard(g, h));
                        }
                        None => {
                            if self.t.chance(1, 4) {
                                self.emit(Op::Clear(g));
                            }
                        }
                    }
                }
            }
            1 => {
                self.emit(Op::Clear(g));
            }
            _ => {
                self.emit(Op::DropGuard(g));
            }
        }
    }

    fn guard_churn(&mut self) {
        // create up to 24 guards (crosses the 16-entry guard storage pool), root things in them, drop most
        let k = 1 + self.t.below(24);
        let mut made = vec![];
        for _ in 0..k {
            if let Some(a) = self.emit(Op::NewGuard) {
                if let Some(g) = a.new_guard {
                    made.push(g);
                    let n = self.t.below(4);
                    for _ in 0..n {
                        if let Some(h) = self.valid_handle() {
                            self.emit(Op::GuardClone(g, h));
                        }
                    }
                }
            }
        }
        let keep = self.t.below(3);
        for (i, g) in made.into_iter().enumerate() {
            if i >= keep {
                self.emit(Op::DropGuard(g));
            }
        }
    }

    fn stale_ops(&mut self) {
        let k = 1 + self.t.below(4);
        for _ in 0..k {
            let Some(h) = self.stale_handle() else { return };
            match self.t.weighted(&[3, 3, 2, 2]) {
                0 => {
                    self.emit(Op::DropH(h));
                }
                1 => {
                    if let Some(a) = self.emit(Op::CloneH(h)) {
                        if let Some(c) = a.new_handle {
                            self.stale_h.push(c);
                            if self.t.chance(1, 2) {
                                self.emit(Op::DropH(c));
                            }
                        }
                    }
                }
                2 => {
                    if let Some(g) = self.guard() {
                        self.emit(Op::GuardClone(g, h));
                    }
                }
                _ => {
                    if let Some(g) = self.guard() {
                        self.emit(Op::Unguard(g, h));
                    }
                }
            }
        }
    }

    fn handle_ops(&mut self) {
        let Some(h) = self.valid_handle() else { return };
        match self.t.below(5) {
            0 => {
                self.emit(Op::CloneH(h));
            }
            1 => {
                self.emit(Op::DropH(h));
            }
            2 | 3 => {
                let n = self.m.valid(h).map(|o| self.m.objs[o as usize].refs.len()).unwrap_or(0);
                if n > 0 {
                    let i = self.t.below(n);
                    self.emit(Op::Load(h, i));
                }
            }
            _ => {
                if let Some(g) = self.guard() {
                    self.emit(Op::GuardMove(g, h));
                }
            }
        }
    }

    fn resurrect(&mut self) {
        // unguard, do something that is not a collection point, guard again (elsewhere)
        if self.live_g.is_empty() {
            return;
        }
        let g = self.live_g[self.t.below(self.live_g.len())];
        let n = self.m.guards[g].as_ref().map(|r| r.len()).unwrap_or(0);
        if n == 0 {
            return;
        }
        let o = self.m.guards[g].as_ref().map(|r| r[self.t.below(n)]).unwrap_or(0);
        let Some(h) = self.handle_of(o) else { return };
        self.emit(Op::Unguard(g, h));
        if self.t.chance(1, 2) {
            let v = self.ops.len() as u64 + 1;
            self.emit(Op::Write(h, v));
        }
        if let Some(g2) = self.guard() {
            self.emit(Op::GuardClone(g2, h));
            if self.t.chance(1, 3) {
                // duplicate root, then remove one occurrence
                self.emit(Op::GuardClone(g2, h));
                self.emit(Op::Unguard(g2, h));
            }
        }
    }

    fn run(&mut self) {
        let profile = self.t.below(5);
        // weights: build, build-big, unroot(+collect), collect, link, unlink, write, handle ops,
        //          guard churn, threshold, stale, heap clone/drop, resurrect
        let w: [u32; 13] = match profile {
            0 => [10, 2, 10, 4, 8, 6, 5, 8, 2, 2, 5, 1, 3],
            1 => [6, 8, 12, 6, 3, 3, 2, 3, 1, 1, 4, 1, 1],  // churn: big bursts, crossing chunks
            2 => [10, 4, 8, 1, 5, 4, 3, 5, 1, 8, 5, 1, 2],  // automatic collections
            3 => [8, 2, 12, 6, 3, 3, 2, 4, 1, 2, 14, 1, 2], // stale handles
            _ => [6, 1, 8, 3, 4, 3, 2, 4, 10, 2, 4, 2, 3],  // guard churn
        };
        match profile {
            1 => {
                let t = *self.t.pick(&[0usize, 1000, 300]);
                self.emit(Op::Threshold(t));
            }
            2 => {
                let t = *self.t.pick(&[7usize, 1, 2, 3, 17, 40]);
                self.emit(Op::Threshold(t));
            }
            _ => {}
        }
        let ng = 1 + self.t.below(3);
        for _ in 0..ng {
            self.emit(Op::NewGuard);
        }
        while !self.t.exhausted() && self.ops.len() < self.max_ops && self.m.heap_alive() {
            match self.t.weighted(&w) {
                0 => self.build(false),
                1 => self.build(true),
                2 => {
                    self.unroot();
                    if self.t.chance(2, 3) {
                        self.emit(Op::Collect);
                    }
                }
                3 => {
                    self.emit(Op::Collect);
                }
                4 => {
                    if let (Some(a), Some(b)) = (self.valid_handle(), self.recent_valid_handle()) {
                        self.emit(Op::Link(a, b));
                    }
                }
                5 => {
                    // cut 1..4 links (objects that were only reachable through them die at the next collection)
                    let want = 1 + self.t.below(4);
                    let mut cut = 0;
                    for _ in 0..want * 3 {
                        if cut >= want {
                            break;
                        }
                        if let Some(h) = self.valid_handle() {
                            let n = self.m.valid(h).map(|o| self.m.objs[o as usize].refs.len()).unwrap_or(0);
                            if n > 0 {
                                let i = self.t.below(n);
                                if self.emit(Op::Unlink(h, i)).is_some() {
                                    cut += 1;
                                }
                            }
                        }
                    }
                    if self.t.chance(1, 3) {
                        self.emit(Op::Collect);
                    }
                }
                6 => {
                    if let Some(h) = self.valid_handle() {
                        let v = self.ops.len() as u64 + 1;
                        self.emit(Op::Write(h, v));
                    }
                }
                7 => self.handle_ops(),
                8 => self.guard_churn(),
                9 => {
                    let t = *self.t.pick(&[0usize, 1, 2, 3, 5, 8, 17, 64, 100, 257, 1000]);
                    self.emit(Op::Threshold(t));
                }
                10 => self.stale_ops(),
                11 => {
                    if self.m.heap_refs < 3 && self.t.chance(2, 3) {
                        self.emit(Op::HeapClone);
                    } else if self.m.heap_refs > 1 {
                        self.emit(Op::HeapDrop);
                    }
                }
                _ => self.resurrect(),
            }
        }
        // epilogue: sometimes drop the heap while guards and handles remain and let the survivors act
        if self.t.chance(1, 3) {
            while self.m.heap_refs > 0 {
                let n = self.ops.len();
                self.max_ops = self.max_ops.max(n + 1);
                if self.emit(Op::HeapDrop).is_none() {
                    break;
                }
            }
            let k = self.t.below(40);
            self.max_ops = self.max_ops.max(self.ops.len() + k * 2);
            for _ in 0..k {
                let Some(h) = self.any_handle() else { break };
                match self.t.below(6) {
                    0 => {
                        self.emit(Op::DropH(h));
                    }
                    1 => {
                        self.emit(Op::CloneH(h));
                    }
                    2 => {
                        if let Some(&g) = self.live_g.first() {
                            self.emit(Op::GuardClone(g, h));
                        }
                    }
                    3 => {
                        if !self.live_g.is_empty() {
                            let g = self.live_g[self.t.below(self.live_g.len())];
                            self.emit(Op::Unguard(g, h));
                        }
                    }
                    4 => {
                        if !self.live_g.is_empty() {
                            let g = self.live_g[self.t.below(self.live_g.len())];
                            if self.t.chance(1, 2) {
                                self.emit(Op::DropGuard(g));
                            } else {
                                self.emit(Op::Clear(g));
                            }
                        }
                    }
                    _ => {
                        if let Some(&g) = self.live_g.last() {
                            self.emit(Op::GuardMove(g, h));
                        }
                    }
                }
            }
        }
    }
}

// ---------------------------------------------------------------------------------------------
// Property
// ---------------------------------------------------------------------------------------------
fn history_case(ops: &[Op], teardown: u64) -> Value {
    json!({"kind": "history", "ops": render_ops(ops), "teardown": teardown})
}

fn exec_history(case: &Value) -> Exec {
    let Some(ops) = case["ops"].as_str().and_then(parse_ops) else {
        return Exec::discard("unparsable history");
    };
    let teardown = case["teardown"].as_u64().unwrap_or(0);
    let checks = if ops.len() <= 64 { Checks::EveryOp } else { Checks::Periodic };
    dying::note_history(case["ops"].as_str().unwrap_or(""), teardown);
    let r = run_history(&ops, teardown, checks, 0);
    let mut tags: Vec<String> = vec![];
    let mut kinds: BTreeMap<&'static str, u64> = BTreeMap::new();
    for op in &ops {
        *kinds.entry(op.code()).or_insert(0) += 1;
    }
    for k in kinds.keys() {
        tags.push(format!("op:{}", k));
    }
    if r.reuses > 0 {
        tags.push("slot-reuse".into());
    }
    if r.nt_collect {
        tags.push("collection-with-deep-survivor".into());
    }
    if r.objects > 256 {
        tags.push("objects>256 (chunk boundary)".into());
    }
    if r.objects > 1000 {
        tags.push("objects>1000".into());
    }
    if kinds.get("ng").copied().unwrap_or(0) > 16 {
        tags.push("guards>16 (guard pool boundary)".into());
    }
    if ops.contains(&Op::HeapDrop) {
        tags.push("heap-dropped".into());
    }
    let observed = json!({"ops": ops.len(), "objects": r.objects, "collections": r.collections, "reclaimed": r.reclaimed,
        "slot_reuses": r.reuses, "objects_compared": r.compared, "skipped_ops": r.skipped});
    let mut ex = match r.failure {
        Some((at, f)) => {
            let shown = ops.get(at).map(|o| {
                let mut s = String::new();
                o.render(&mut s);
                s
            });
            Exec::fail(f.sig, format!("after op #{} ({}): {}", at, shown.unwrap_or_else(|| "end of history".into()), f.msg))
        }
        None => Exec::pass(r.nontrivial),
    };
    ex.tags = tags;
    ex.observed = observed;
    ex.counters = vec![
        ("ops_executed".into(), ops.len() as u64),
        ("objects_allocated".into(), r.objects as u64),
        ("collections".into(), r.collections),
        ("objects_reclaimed".into(), r.reclaimed),
        ("slot_reuses".into(), r.reuses),
        ("objects_compared".into(), r.compared),
        ("ops_skipped_by_executor".into(), r.skipped),
        ("stale_handle_events_seen_by_hook".into(), r.stale_events),
        ("auto_collect_schedule_differs_from_documented_rule".into(), r.sched_mismatch),
    ];
    for (k, n) in kinds {
        ex.counters.push((format!("opcount:{}", k), n));
    }
    if let Some(n) = case["excluded"][GATE_STALE_AFTER_REUSE].as_u64() {
        ex.counters.push((format!("excluded:{}", GATE_STALE_AFTER_REUSE), n));
    }
    ex
}

/// Recycle counts: small, around 2^8 and around 2^16 (2^32 is out of reach of any test).
const RECYCLE_COUNTS: [u64; 17] = [1, 2, 3, 127, 128, 254, 255, 256, 257, 258, 511, 512, 65534, 65535, 65536, 65537, 131072];
const RECYCLE_QUICK_BIG: [u64; 3] = [65535, 65536, 65537];

/// History: object A gets two handles, loses its root and is collected (the handles go stale); its slot is
/// then recycled n-1 more times through short-lived objects; finally tenant B moves in (rooted, value 42)
/// and the stale handles are used in the ways Rust itself may use them (drop / clone+drop / guard+unguard).
fn recycle_history(n: u64, variant: u64) -> Vec<Op> {
    let mut ops = vec![Op::NewGuard, Op::Alloc(0), Op::CloneH(0), Op::Write(0, 7), Op::DropGuard(0), Op::Collect];
    // guards: 0 used; handles: 0,1 (both stale now)
    let mut g = 1usize;
    let mut h = 2usize;
    for _ in 1..n {
        ops.push(Op::NewGuard);
        ops.push(Op::Alloc(g));
        ops.push(Op::DropH(h));
        ops.push(Op::DropGuard(g));
        ops.push(Op::Collect);
        g += 1;
        h += 1;
    }
    ops.push(Op::NewGuard);
    ops.push(Op::Alloc(g));
    let hb = h;
    ops.push(Op::Write(hb, 42));
    match variant {
        0 => {
            ops.push(Op::DropH(0));
            ops.push(Op::DropH(1));
        }
        1 => {
            ops.push(Op::CloneH(0)); // handle hb+1 (stale clone)
            ops.push(Op::DropH(hb + 1));
            ops.push(Op::DropH(0));
            ops.push(Op::DropH(1));
        }
        2 => {
            ops.push(Op::GuardClone(g, 0));
            ops.push(Op::Unguard(g, 0));
            ops.push(Op::DropH(0));
            ops.push(Op::DropH(1));
        }
        _ => {
            ops.push(Op::Unguard(g, 1));
            ops.push(Op::DropH(1));
            ops.push(Op::DropH(0));
        }
    }
    // B must still be there: clone + drop a valid handle, collect, allocate a neighbour
    ops.push(Op::CloneH(hb));
    ops.push(Op::Collect);
    ops.push(Op::Alloc(g));
    ops.push(Op::Collect);
    ops
}

fn exec_recycle(case: &Value) -> Exec {
    let n = case["n"].as_u64().unwrap_or(1);
    let variant = case["variant"].as_u64().unwrap_or(0);
    let ops = recycle_history(n, variant);
    let churn_end = 6 + 5 * (n.saturating_sub(1)) as usize;
    dying::note_history(&format!("recycle n={} variant={}", n, variant), 0);
    // the churn itself is plain alloc/collect traffic: it is checked in full when short, unchecked when long
    let r = run_history(&ops, 0, Checks::Periodic, if n > 600 { churn_end } else { 0 });
    let mut ex = match r.failure {
        Some((at, f)) => {
            let shown = ops.get(at).map(|o| {
                let mut s = String::new();
                o.render(&mut s);
                s
            });
            let mut e = Exec::fail(f.sig, format!("slot recycled {} times, stale-handle use variant {}: after op #{} ({}): {}", n, variant, at, shown.unwrap_or_else(|| "end of history".into()), f.msg));
            e.repro = Some(json!({"kind": "recycle", "n": n, "variant": variant}));
            e
        }
        None => Exec::pass(r.reuses > 0),
    };
    ex.tags = vec![format!("recycle:n={}", n), format!("recycle:variant={}", variant), "slot-reuse".into()];
    ex.observed = json!({"ops": ops.len(), "collections": r.collections, "slot_reuses": r.reuses, "skipped_ops": r.skipped});
    ex.counters = vec![("ops_executed".into(), ops.len() as u64), ("slot_reuses".into(), r.reuses), ("collections".into(), r.collections), ("ops_skipped_by_executor".into(), r.skipped)];
    ex
}

fn exec_enumeration(case: &Value, ctx: &Ctx) -> Exec {
    let tier = if case["tier"].as_str() == Some("thorough") { Tier::Thorough } else { Tier::Quick };
    let stale_gated = ctx.gates.excluded(GATE_STALE_AFTER_REUSE);
    let mut st = EnumStats::default();
    match case["kind"].as_str() {
        Some("enum-levels") => {
            // the first SPLIT_LEVELS levels from every start configuration; pairs are dealt round-robin
            let shard = case["shard"].as_u64().unwrap_or(0) as usize;
            let nshards = case["nshards"].as_u64().unwrap_or(1).max(1) as usize;
            VISITED.with(|v| v.borrow_mut().clear());
            let owns = move |_k: u64, i: usize| i % nshards == shard;
            explore(config_roots(tier), SPLIT_LEVELS, &owns, true, stale_gated, &mut st);
        }
        _ => {
            // one subtree: all histories `prefix . w`, |w| <= depth, modulo abstract-state de-duplication
            let prefix = case["prefix"].as_str().and_then(parse_ops).unwrap_or_default();
            let depth = case["depth"].as_u64().unwrap_or(0) as usize;
            let owns = |_k: u64, _i: usize| true;
            explore(vec![(prefix, depth)], depth, &owns, true, stale_gated, &mut st);
        }
    }
    let mut ex = match st.failure.take() {
        Some((ops, teardown, at, f)) => {
            let mut e = Exec::fail(f.sig, format!("history `{}` fails after op #{}: {}", render_ops(&ops), at, f.msg));
            e.repro = Some(history_case(&ops, teardown));
            e
        }
        None => Exec::pass(true),
    };
    ex.evals = st.evals;
    ex.nontrivial = st.nontrivial;
    ex.observed = json!({"histories": st.evals, "nontrivial": st.nontrivial, "new_abstract_states": st.states, "longest_history": st.max_len,
        "example_nontrivial_histories": st.examples});
    ex.counters = vec![
        ("enumerated_histories".into(), st.evals),
        ("enumerated_nontrivial".into(), st.nontrivial),
        ("enumerated_new_abstract_states_per_shard_summed".into(), st.states),
    ];
    for (k, n) in st.hist {
        ex.counters.push((format!("enum_last_op:{}", k), n));
    }
    ex.tags = vec!["enumeration-block".into()];
    ex
}

impl Property for C13Prop {
    fn id(&self) -> &'static str {
        "C13"
    }
    fn rule(&self) -> String {
        "Cases are operation histories over the public Heap/Guard/Gc API (payload Node{value, refs}); ops: ng new guard, dg drop guard, al alloc, ln/ul link/unlink, gc/gm guard (clone/move), ug unguard, cl clear, ch/dh clone/drop handle, ld load a link into a handle, wr write payload, co collect, th set threshold, hc/hd clone/drop heap. \
         Enumerated part: breadth-first over ABSTRACT model states (model state + predicted slot assignment + free-list order; handles of one object and guards interchangeable; payload abstracted to zero/non-zero) with <=3 live guards, <=4 objects, <=2 handles and <=2 links per object, <=3 roots per guard, thresholds {0,1,2,default}, from the empty heap (depth 5 quick / 7 thorough) and from four start configurations (pair a->b: depth 5/6; chain of 3 with only the head rooted: 4/5; free slot with two stale handles: 6/8; object shared by two guards with threshold 2: 4/5); every (state, enabled op) pair is executed as its own history on a fresh heap, so each enumerated evaluation is a distinct history; subtrees are dealt to the 16 shards after 2 levels (contiguous blocks of the sorted frontier) and de-duplicated per shard, so different shards may reach the same abstract state through different histories. \
         Slot-recycling family (fixed cases): two handles of an object go stale, the slot is recycled n times through short-lived objects for n in {1,2,3,127,128,254..258,511,512,65534..65537,131072} (quick: 2^16 neighbours 65535..65537 only), then a rooted tenant with payload 42 moves in and the stale handles are dropped / cloned+dropped / guarded+unguarded / unguarded before the tenant is re-read - the widths at which a slot generation stamp could wrap. Random part: tape-driven histories of up to 10000 ops (macros: bursts of 1..500 allocations wired as chain/ring/star/tree, unroot+collect, guard churn of up to 24 guards, automatic collections through small thresholds, stale-handle clone/drop/guard/unguard, resurrect before a collection, heap dropped while guards and handles remain), distinct by rendered text. \
         Non-trivial: the history contains a collection that reclaims >=1 object while >=1 survivor is reachable only through a link path of length >=2, or an allocation that re-uses a slot.".into()
    }
    fn assumptions(&self) -> Vec<String> {
        vec![
            "reference model in harness/src/props/c13.rs (objects, links, guard root multisets, handle table, BFS reachability) written from the property text and the gc.rs module docs".into(),
            "a handle is used for reads/writes/links only while its object was reachable at every collection point since allocation; collection points are collect() and the collections the heap itself runs inside alloc (observed through the verif-hooks collection counter, compared with the documented threshold rule and counted, not judged)".into(),
            "stale handles are only dropped, cloned, passed to Guard::guard and Guard::unguard (all must be inert); never borrowed".into(),
            "contents are compared only for objects the model considers reachable from a live guard; an object that was unreachable for a while between two collection points and is guarded again is expected to have kept its contents (gc.rs: objects are collected by the GC, not when unreachable)".into(),
            "AddressSanitizer (nightly rustc -Zsanitizer=address) and debug assertions as the memory-safety monitor; a report kills the worker and is reported by the supervisor".into(),
            "after the heap is dropped only drop/clone of handles, Guard::guard/unguard/clear/len and guard drops are issued (borrowing a handle after the heap is gone is outside the domain)".into(),
            "abstract-state de-duplication assumes the collector's future behaviour depends only on the abstract state (ref counts, mark bits and generations are not part of it)".into(),
        ]
    }
    fn plan(&self, tier: Tier) -> Plan {
        Plan { shards: 16, cases_per_shard: tier.pick(600, 8000), tape_len: 8192, watchdog_s: tier.pick(3600, 28800) }
    }
    fn exhaustive_part(&self, tier: Tier) -> Option<String> {
        Some(format!(
            "all histories over the bounded alphabet (<=3 live guards, <=4 objects, <=2 handles and links per object) up to depth {} from the empty heap and depth {} from the start configurations pair/chain3/stale/shared, modulo abstract-state de-duplication",
            tier.pick(5, 7),
            tier.pick("5/4/6/4", "6/5/8/5")
        ))
    }
    fn fixed_cases(&self, ctx: &Ctx) -> Vec<Value> {
        let stale_gated = ctx.gates.excluded(GATE_STALE_AFTER_REUSE);
        let mut cases = vec![json!({"kind": "enum-levels", "tier": ctx.tier.name(), "shard": ctx.shard, "nshards": ctx.nshards})];
        // model-only exploration of the first levels (identical in every shard), then deal the frontier
        VISITED.with(|v| v.borrow_mut().clear());
        let mut st = EnumStats::default();
        let never = |_k: u64, _i: usize| false;
        let mut frontier = explore(config_roots(ctx.tier), SPLIT_LEVELS, &never, false, stale_gated, &mut st);
        frontier.sort_by(|a, b| render_ops(&a.0).cmp(&render_ops(&b.0)));
        let n = frontier.len().max(1);
        for (i, (path, rem)) in frontier.into_iter().enumerate() {
            if i * ctx.nshards.max(1) / n == ctx.shard {
                cases.push(json!({"kind": "enum-subtree", "tier": ctx.tier.name(), "prefix": render_ops(&path), "depth": rem}));
            }
        }
        // slot-recycling family: a stale handle is kept while its slot is recycled n times (n around the
        // widths a generation stamp could have), then used while the slot has a live tenant
        let mut k = 0usize;
        for &n in RECYCLE_COUNTS.iter() {
            if n > 1000 && ctx.tier == Tier::Quick && !RECYCLE_QUICK_BIG.contains(&n) {
                continue;
            }
            for variant in 0..4u64 {
                if k % ctx.nshards.max(1) == ctx.shard {
                    cases.push(json!({"kind": "recycle", "n": n, "variant": variant}));
                }
                k += 1;
            }
        }
        cases
    }
    fn generate(&self, tape: &mut Tape, ctx: &Ctx) -> Value {
        let stale_gated = ctx.gates.excluded(GATE_STALE_AFTER_REUSE);
        let max_ops = 10000;
        let mut g = Gen {
            t: tape,
            m: Model::new(),
            ops: vec![],
            live_h: vec![],
            pos_h: vec![],
            live_g: vec![],
            stale_h: vec![],
            max_ops,
            stale_gated,
            excluded: 0,
        };
        g.run();
        let teardown = g.t.below(6) as u64;
        let mut case = history_case(&g.ops, teardown);
        if stale_gated {
            case["excluded"] = json!({ GATE_STALE_AFTER_REUSE: g.excluded });
        }
        case
    }
    fn execute(&self, case: &Value, ctx: &mut Ctx) -> Exec {
        match case["kind"].as_str() {
            Some("enum-levels") | Some("enum-subtree") => exec_enumeration(case, ctx),
            Some("recycle") => exec_recycle(case),
            _ => exec_history(case),
        }
    }
}
