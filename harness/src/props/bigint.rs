//! Minimal exact unsigned big integer for the C15 reference model (no bignum crate is available
//! offline). Little-endian `u32` limbs, no trailing zero limbs (zero = empty vector).
//! Only what the reference needs: small multiply/add/divide, shifts, compare, add/sub, schoolbook
//! multiply, powers, radix conversion. Every operation is exact; nothing here rounds.

use std::cmp::Ordering;

#[derive(Clone, Debug, PartialEq, Eq, Default)]
pub struct BigUint {
    limbs: Vec<u32>,
}

impl BigUint {
    pub fn zero() -> BigUint {
        BigUint { limbs: vec![] }
    }
    pub fn from_u64(v: u64) -> BigUint {
        let mut b = BigUint { limbs: vec![v as u32, (v >> 32) as u32] };
        b.trim();
        b
    }
    pub fn from_u128(v: u128) -> BigUint {
        let mut b = BigUint { limbs: vec![v as u32, (v >> 32) as u32, (v >> 64) as u32, (v >> 96) as u32] };
        b.trim();
        b
    }
    fn trim(&mut self) {
        while self.limbs.last() == Some(&0) {
            self.limbs.pop();
        }
    }
    pub fn is_zero(&self) -> bool {
        self.limbs.is_empty()
    }
    pub fn bit_len(&self) -> usize {
        match self.limbs.last() {
            None => 0,
            Some(top) => (self.limbs.len() - 1) * 32 + (32 - top.leading_zeros() as usize),
        }
    }
    pub fn bit(&self, i: usize) -> bool {
        match self.limbs.get(i / 32) {
            Some(l) => (l >> (i % 32)) & 1 == 1,
            None => false,
        }
    }
    /// true when the lowest `n` bits are all zero
    pub fn low_bits_zero(&self, n: usize) -> bool {
        let full = n / 32;
        for i in 0..full.min(self.limbs.len()) {
            if self.limbs[i] != 0 {
                return false;
            }
        }
        let rem = n % 32;
        if rem != 0 {
            if let Some(l) = self.limbs.get(full) {
                if l & ((1u32 << rem) - 1) != 0 {
                    return false;
                }
            }
        }
        true
    }
    pub fn trailing_zeros(&self) -> usize {
        for (i, l) in self.limbs.iter().enumerate() {
            if *l != 0 {
                return i * 32 + l.trailing_zeros() as usize;
            }
        }
        0
    }
    pub fn mul_small(&mut self, k: u32) {
        if k == 0 {
            self.limbs.clear();
            return;
        }
        let mut carry: u64 = 0;
        for l in self.limbs.iter_mut() {
            let t = *l as u64 * k as u64 + carry;
            *l = t as u32;
            carry = t >> 32;
        }
        if carry != 0 {
            self.limbs.push(carry as u32);
        }
    }
    pub fn add_small(&mut self, k: u32) {
        let mut carry = k as u64;
        for l in self.limbs.iter_mut() {
            if carry == 0 {
                return;
            }
            let t = *l as u64 + carry;
            *l = t as u32;
            carry = t >> 32;
        }
        if carry != 0 {
            self.limbs.push(carry as u32);
        }
    }
    /// self /= d, returns the remainder
    pub fn divrem_small(&mut self, d: u32) -> u32 {
        assert!(d != 0);
        let mut rem: u64 = 0;
        for l in self.limbs.iter_mut().rev() {
            let cur = (rem << 32) | *l as u64;
            *l = (cur / d as u64) as u32;
            rem = cur % d as u64;
        }
        self.trim();
        rem as u32
    }
    pub fn shl(&self, bits: usize) -> BigUint {
        if self.is_zero() {
            return BigUint::zero();
        }
        let limbs = bits / 32;
        let rem = bits % 32;
        let mut out = vec![0u32; limbs];
        if rem == 0 {
            out.extend_from_slice(&self.limbs);
        } else {
            let mut carry = 0u32;
            for l in &self.limbs {
                out.push((l << rem) | carry);
                carry = l >> (32 - rem);
            }
            if carry != 0 {
                out.push(carry);
            }
        }
        let mut b = BigUint { limbs: out };
        b.trim();
        b
    }
    /// floor(self / 2^bits)
    pub fn shr(&self, bits: usize) -> BigUint {
        let limbs = bits / 32;
        let rem = bits % 32;
        if limbs >= self.limbs.len() {
            return BigUint::zero();
        }
        let src = &self.limbs[limbs..];
        let mut out = Vec::with_capacity(src.len());
        if rem == 0 {
            out.extend_from_slice(src);
        } else {
            for i in 0..src.len() {
                let hi = if i + 1 < src.len() { src[i + 1] << (32 - rem) } else { 0 };
                out.push((src[i] >> rem) | hi);
            }
        }
        let mut b = BigUint { limbs: out };
        b.trim();
        b
    }
    pub fn add(&self, o: &BigUint) -> BigUint {
        let n = self.limbs.len().max(o.limbs.len());
        let mut out = Vec::with_capacity(n + 1);
        let mut carry = 0u64;
        for i in 0..n {
            let t = *self.limbs.get(i).unwrap_or(&0) as u64 + *o.limbs.get(i).unwrap_or(&0) as u64 + carry;
            out.push(t as u32);
            carry = t >> 32;
        }
        if carry != 0 {
            out.push(carry as u32);
        }
        BigUint { limbs: out }
    }
    /// self - o; panics when o > self
    pub fn sub(&self, o: &BigUint) -> BigUint {
        assert!(*self >= *o, "BigUint::sub underflow");
        let mut out = Vec::with_capacity(self.limbs.len());
        let mut borrow = 0i64;
        for i in 0..self.limbs.len() {
            let mut t = self.limbs[i] as i64 - *o.limbs.get(i).unwrap_or(&0) as i64 - borrow;
            if t < 0 {
                t += 1 << 32;
                borrow = 1;
            } else {
                borrow = 0;
            }
            out.push(t as u32);
        }
        let mut b = BigUint { limbs: out };
        b.trim();
        b
    }
    pub fn mul(&self, o: &BigUint) -> BigUint {
        if self.is_zero() || o.is_zero() {
            return BigUint::zero();
        }
        let mut out = vec![0u32; self.limbs.len() + o.limbs.len()];
        for (i, a) in self.limbs.iter().enumerate() {
            let mut carry = 0u64;
            for (j, b) in o.limbs.iter().enumerate() {
                let t = *a as u64 * *b as u64 + out[i + j] as u64 + carry;
                out[i + j] = t as u32;
                carry = t >> 32;
            }
            let mut k = i + o.limbs.len();
            while carry != 0 {
                let t = out[k] as u64 + carry;
                out[k] = t as u32;
                carry = t >> 32;
                k += 1;
            }
        }
        let mut b = BigUint { limbs: out };
        b.trim();
        b
    }
    /// base^n by repeated small multiplication (n is at most a few thousand here)
    pub fn pow(base: u32, n: u32) -> BigUint {
        let mut r = BigUint::from_u64(1);
        // multiply by the largest power of base that fits a u32, then the rest
        let mut chunk = base as u64;
        let mut per = 1u32;
        while chunk * (base as u64) <= u32::MAX as u64 {
            chunk *= base as u64;
            per += 1;
        }
        let mut left = n;
        while left >= per {
            r.mul_small(chunk as u32);
            left -= per;
        }
        for _ in 0..left {
            r.mul_small(base);
        }
        r
    }
    /// digits in `radix` (2..=36), ASCII, most significant first; None on an invalid digit
    pub fn from_digits(digits: &[u8], radix: u32) -> Option<BigUint> {
        let mut r = BigUint::zero();
        for c in digits {
            let d = (*c as char).to_digit(radix)?;
            r.mul_small(radix);
            r.add_small(d);
        }
        Some(r)
    }
    pub fn to_radix_string(&self, radix: u32) -> String {
        assert!((2..=36).contains(&radix));
        if self.is_zero() {
            return "0".into();
        }
        // peel chunks of radix^per that fit a u32
        let mut chunk = radix as u64;
        let mut per = 1usize;
        while chunk * (radix as u64) <= u32::MAX as u64 {
            chunk *= radix as u64;
            per += 1;
        }
        let mut t = self.clone();
        let mut out: Vec<u8> = Vec::new();
        while !t.is_zero() {
            let mut r = t.divrem_small(chunk as u32);
            for _ in 0..per {
                let d = (r % radix) as u8;
                r /= radix;
                out.push(if d < 10 { b'0' + d } else { b'a' + d - 10 });
            }
        }
        while out.last() == Some(&b'0') {
            out.pop();
        }
        out.reverse();
        String::from_utf8(out).unwrap()
    }
    pub fn to_u64(&self) -> Option<u64> {
        match self.limbs.len() {
            0 => Some(0),
            1 => Some(self.limbs[0] as u64),
            2 => Some(self.limbs[0] as u64 | (self.limbs[1] as u64) << 32),
            _ => None,
        }
    }
    /// lowest 64 bits (self mod 2^64)
    pub fn low_u64(&self) -> u64 {
        *self.limbs.first().unwrap_or(&0) as u64 | (*self.limbs.get(1).unwrap_or(&0) as u64) << 32
    }
}

impl PartialOrd for BigUint {
    fn partial_cmp(&self, o: &BigUint) -> Option<Ordering> {
        Some(self.cmp(o))
    }
}
impl Ord for BigUint {
    fn cmp(&self, o: &BigUint) -> Ordering {
        if self.limbs.len() != o.limbs.len() {
            return self.limbs.len().cmp(&o.limbs.len());
        }
        for i in (0..self.limbs.len()).rev() {
            if self.limbs[i] != o.limbs[i] {
                return self.limbs[i].cmp(&o.limbs[i]);
            }
        }
        Ordering::Equal
    }
}

/// Deterministic self-test against u128 arithmetic; run once per worker (cheap) so that a broken
/// reference is an infrastructure error and never a verdict.
pub fn self_test() -> Result<(), String> {
    let mut s: u64 = 0x1234_5678_9abc_def1;
    let mut next = || {
        s ^= s << 13;
        s ^= s >> 7;
        s ^= s << 17;
        s
    };
    for i in 0..400 {
        let a = next() >> (i % 40);
        let b = next() >> ((i * 7) % 50);
        let (ba, bb) = (BigUint::from_u64(a), BigUint::from_u64(b));
        let want = a as u128 * b as u128;
        if ba.mul(&bb) != BigUint::from_u128(want) {
            return Err(format!("mul {} {}", a, b));
        }
        if ba.add(&bb) != BigUint::from_u128(a as u128 + b as u128) {
            return Err(format!("add {} {}", a, b));
        }
        let (hi, lo) = if a >= b { (a, b) } else { (b, a) };
        if BigUint::from_u64(hi).sub(&BigUint::from_u64(lo)) != BigUint::from_u64(hi - lo) {
            return Err(format!("sub {} {}", hi, lo));
        }
        if ba.cmp(&bb) != a.cmp(&b) {
            return Err(format!("cmp {} {}", a, b));
        }
        let sh = (i % 60) as usize;
        if ba.shl(sh) != BigUint::from_u128((a as u128) << sh) {
            return Err(format!("shl {} {}", a, sh));
        }
        let w = BigUint::from_u128(want);
        if w.shr(sh) != BigUint::from_u128(want >> sh) {
            return Err(format!("shr {} {}", want, sh));
        }
        if w.low_bits_zero(sh) != (want & ((1u128 << sh) - 1) == 0) {
            return Err(format!("low_bits_zero {} {}", want, sh));
        }
        if want != 0 && w.bit_len() != 128 - want.leading_zeros() as usize {
            return Err(format!("bit_len {}", want));
        }
        let d = (next() as u32) | 1;
        let mut q = w.clone();
        let r = q.divrem_small(d);
        if q != BigUint::from_u128(want / d as u128) || r as u128 != want % d as u128 {
            return Err(format!("divrem_small {} {}", want, d));
        }
        for radix in [2u32, 3, 7, 10, 16, 36] {
            let txt = w.to_radix_string(radix);
            let back = BigUint::from_digits(txt.as_bytes(), radix);
            if back.as_ref() != Some(&w) {
                return Err(format!("radix {} {}", want, radix));
            }
            if radix == 10 && txt != want.to_string() {
                return Err(format!("decimal {}", want));
            }
            if radix == 16 && txt != format!("{:x}", want) {
                return Err(format!("hex {}", want));
            }
        }
    }
    // powers: 10^n == 2^n * 5^n, and a known value
    for n in [0u32, 1, 9, 10, 22, 23, 100, 400] {
        if BigUint::pow(10, n) != BigUint::pow(5, n).shl(n as usize) {
            return Err(format!("pow10 {}", n));
        }
        let t = BigUint::pow(10, n).to_radix_string(10);
        if t.len() != n as usize + 1 || !t.starts_with('1') || t[1..].bytes().any(|c| c != b'0') {
            return Err(format!("pow10 digits {}", n));
        }
    }
    Ok(())
}
