//! C19 case generator: progen statements (full profile) interleaved with module/order/error
//! constructs; dependency modules; importers for the role cases.

use crate::core::{Ctx, Tier};
use crate::findings::Gates;
use crate::progen::{render_plain, Config, Gen, Ty, SHOW_PRELUDE};
use crate::tape::Tape;
use serde_json::{json, Value};
use std::collections::{BTreeMap, BTreeSet};

pub fn rule_text() -> String {
    "Cases are rendered from the choice tape. ENTRY cases (2/3): a program = progen statements (full profile: declarations, control flow, closures, classes, generators, destructuring, exceptions, library calls) interleaved with C19 constructs: plain scripts, scripts with orders, modules; `export const/let(+exported mutator)/function/function*/arrow/async function that orders/class`, `export default` (expression, anonymous/named function, class, arrow, object), `export { a as b }` (in place or at the end), `export const {..} = ..`, re-exports `{ x as y } / same name / { default as z } / * / * as ns` from a host-provided dependency, the nested dependency or the internal library - in 3/7 of the programs that use the internal library it is reached ONLY by such a run-time re-export placed after earlier export statements (first load while exports are pending); imports (named, renamed, default, namespace, side-effect only, same module twice) from 0-2 host-provided modules (one nested: /lib/dep1.ts imports ../dep0.ts) with reads of live bindings around calls of imported mutators, in 1/4 of the modules also from the internal source library int:lib (then only the Rust entry points run); `order()`/`__cancelOrder__` from tsrun:host at top level, in try/catch, inside async callees (awaited at once or later) and exported functions, host promises awaited later, Promise.all over host promises, background callees parked on a host promise, `[payloads].map(order)` (orders that stay pending: multi-entry pending lists, also at the end of the program or travelling with a promise suspension); top-level await of the program's own promises, background callees parked on them (resolved at once / at the end / never); host answers by payload key: number, string, object, error, host promise settled at a later empty suspension; errors thrown at top level, inside callees (caught and uncaught), error responses uncaught. The same source goes through 5 entry points, each on a fresh interpreter/context, driven by ONE host script: prepare()+step() [reference], eval() continued by step(), prepare()+step() with host reads at tape-chosen steps (gc_stats, call_depth, collect, get_export_names/get_export, api::get_property/keys on kept order payloads), C API tsrun_prepare+tsrun_run, C API tsrun_prepare+tsrun_step (tsrun_provide_module, tsrun_fulfill_orders, tsrun_create_order_promise/tsrun_resolve_promise, tsrun_get_export(_names), tsrun_set_console, tsrun_gc_stats). Oracle: equal sequence of non-Continue results incl. import requests (specifier, resolved path, importer), order ids+payloads and cancelled ids, and the result of one more step after the end; equal completion value / error text; equal console lines; equal export table (names -> values); closed form: after a completed run every name the generator exported is in the export table. ROLE cases (1/3): one module (always `export let count` + `incr`; exports of every form incl. async functions that order, classes, default, re-exports; imports from tsrun:host, the internal source library int:lib and - two-role variant - a host-provided dependency; optional failure at load; no top-level order await) is run as entry module (then imported by a second run on the same interpreter), as host-provided dependency and as InternalModule::source; oracle: the importer's report {names, typeof, values before/after calling every exported mutator/function/class/async orderer through the namespace object and through named/default import bindings, call results}, console lines and order traffic are identical in all roles, the same failure when the module throws at load, and get_export_names()/get_export() of the entry module equal the importer's view; closed form: every name the generator exported is in the namespace seen by the importer and in get_export_names(). Non-trivial: module with >= 1 export and an import round (or internal import) or an order suspension; or script with an order suspension. Distinct = distinct case text. No open C19 finding exists, so no gate removes a construct (the generator would consult ctx.gates under the prefix C19: and count exclusions)."
        .into()
}

fn ind_lines(s: &str) -> String {
    s.to_string()
}

#[derive(Clone, Debug, PartialEq)]
pub enum ExKind {
    Const,
    /// `export let` + name of its mutator
    Let,
    /// mutator of a let: (let name)
    Mutator(String),
    Fn,
    Gen,
    /// async function that awaits an order
    Ask,
    Class,
    Default(&'static str),
    Listed,
    ReExport,
}

#[derive(Clone, Debug)]
pub struct ExportInfo {
    pub name: String,
    pub kind: ExKind,
}

#[derive(Clone, Debug, Default)]
pub struct Opts {
    pub module: bool,
    /// top-level `await order(..)` allowed
    pub top_await: bool,
    /// host-provided dependency modules allowed
    pub host_deps: bool,
    /// import from the internal source library `int:lib`
    pub internal_lib: bool,
    pub max_stmts: usize,
    pub main_path: &'static str,
    /// top-level await of the program's own promises / background async callees
    pub local_async: bool,
}

pub struct Built {
    pub src: String,
    pub modules: BTreeMap<String, String>,
    pub kinds: BTreeMap<String, String>,
    pub tags: BTreeSet<String>,
    pub exports: Vec<ExportInfo>,
    pub excluded: BTreeMap<String, u32>,
    pub has_imports: bool,
    pub uses_orders: bool,
}

pub const INT_LIB: &str = "console.log(\"load:int:lib\");\nexport const libA = 5;\nexport let libN = 10;\nexport function libInc(x) { libN = libN + x; return libN; }\nexport const libObj = {tag: \"lib\", list: [1, 2]};\nexport default \"lib-default\";\n";

struct MB<'t, 'a, 'g> {
    g: Gen<'t, 'a, 'g>,
    o: Opts,
    imports: Vec<String>,
    lines: Vec<String>,
    tail: Vec<String>,
    kinds: BTreeMap<String, String>,
    next_k: u64,
    n: usize,
    tid: usize,
    exports: Vec<ExportInfo>,
    has_default: bool,
    exported_vars: BTreeSet<String>,
    modules: BTreeMap<String, String>,
    /// names usable in expressions that came from imports: (expr text, is_callable_inc)
    import_reads: Vec<String>,
    import_calls: Vec<String>,
    dep_specs: Vec<String>,
    uses_orders: bool,
    uses_cancel: bool,
    /// the internal library is still to be re-exported lazily (no import of it anywhere in this program)
    lazy_lib: bool,
    uses_int_lib: bool,
    ended: bool,
    ask_fns: Vec<String>,
    mutators: Vec<String>,
    boom_fns: Vec<String>,
}

impl<'t, 'a, 'g> MB<'t, 'a, 'g> {
    fn fresh(&mut self, p: &str) -> String {
        self.n += 1;
        format!("{}{}", p, self.n)
    }
    fn t(&mut self, e: &str) -> String {
        self.tid += 1;
        format!("__t({}, {});", 1000 + self.tid, e)
    }
    fn tag(&mut self, s: &str) {
        self.g.tag(format!("c19:{}", s));
    }
    fn key(&mut self, kind: &str) -> u64 {
        let k = self.next_k;
        self.next_k += 1;
        self.kinds.insert(k.to_string(), kind.to_string());
        self.uses_orders = true;
        k
    }
    /// a JSON-safe expression (number / string / boolean / small array / record) that may read program variables
    fn json_expr(&mut self) -> (String, Ty) {
        let ty = match self.g.tape.weighted(&[5, 4, 2, 2, 2]) {
            0 => Ty::Num,
            1 => Ty::Str,
            2 => Ty::Bool,
            3 => Ty::Arr(Box::new(Ty::Num)),
            _ => Ty::Rec(vec![("a".into(), Ty::Num), ("b".into(), Ty::Str)]),
        };
        let d = self.g.tape.below(3);
        let e = render_plain(&self.g.expr(&ty, d));
        (e, ty)
    }
    fn small_num(&mut self) -> i64 {
        self.g.tape.range(1, 9)
    }
    fn value_kind(&mut self) -> &'static str {
        ["v", "s", "o"][self.g.tape.weighted(&[5, 3, 3])]
    }

    // ---------------------------------------------------------------- dependency modules
    fn add_deps(&mut self) {
        if !self.o.module {
            return;
        }
        // how the internal source library is reached: not at all / hoisted import (+ re-export) / ONLY by a
        // run-time re-export that executes after earlier export statements (first load of the library happens
        // while the importing module already has pending exports)
        let lib_mode = if self.o.internal_lib { self.g.tape.weighted(&[1, 3, 3]) } else { 0 };
        if lib_mode == 2 {
            self.lazy_lib = true;
            self.uses_int_lib = true;
        }
        if lib_mode == 1 {
            self.uses_int_lib = true;
            self.tag("import:internal-source-lib");
            match self.g.tape.below(3) {
                0 => self.imports.push("import { libA, libN, libInc } from \"int:lib\";".into()),
                1 => self.imports.push("import libDflt, { libA, libN, libInc, libObj } from \"int:lib\";".into()),
                _ => self.imports.push("import * as libNs from \"int:lib\";\nimport { libA, libN, libInc } from \"int:lib\";".into()),
            }
            self.g.declare("libA", Ty::Num, false);
            self.g.declare("libN", Ty::Num, false);
            self.import_reads.push("libN".into());
            self.import_reads.push("libA".into());
            self.import_calls.push("libInc".into());
            if self.g.tape.chance(1, 2) {
                self.tag("reexport:from-internal");
                let n = self.fresh("ril");
                self.lines.push(format!("export {{ libA as {}, libN as {}n }} from \"int:lib\";", n, n));
                self.exports.push(ExportInfo { name: n.clone(), kind: ExKind::ReExport });
                self.exports.push(ExportInfo { name: format!("{}n", n), kind: ExKind::ReExport });
            }
        }
        if !self.o.host_deps {
            return;
        }
        let ndeps = self.g.tape.weighted(&[3, 5, 4]);
        if ndeps == 0 {
            return;
        }
        // dep0
        let d0_default = self.g.tape.below(4);
        let mut d0 = String::from("console.log(\"load:dep0\");\nexport const d0a = 7;\nexport const d0s = \"s0\";\nexport let d0n = 1;\nexport function d0inc(x) { d0n = d0n + x; return d0n; }\nexport class D0K { constructor(v) { this.v = v; } dbl() { return this.v * 2; } static make() { return new D0K(3); } }\n");
        match d0_default {
            0 => {}
            1 => d0.push_str("export default {tag: \"dep0-default\", n: [1, 2]};\n"),
            2 => d0.push_str("export default function () { return \"d0f:\" + d0n; }\n"),
            _ => d0.push_str("export default class { static who() { return \"d0c\"; } }\n"),
        }
        self.modules.insert("/dep0.ts".into(), d0);
        self.dep_specs.push("./dep0.ts".into());
        self.g.declare("d0a", Ty::Num, false);
        self.g.declare("d0s", Ty::Str, false);
        let form = self.g.tape.below(5);
        match form {
            0 => {
                self.tag("import:named");
                self.imports.push("import { d0a, d0s, d0n, d0inc } from \"./dep0.ts\";".into());
                self.g.declare("d0n", Ty::Num, false);
                self.import_reads.push("d0n".into());
                self.import_calls.push("d0inc".into());
            }
            1 => {
                self.tag("import:renamed");
                self.imports.push("import { d0a, d0s, d0n as cnt0, d0inc as inc0, D0K } from \"./dep0.ts\";".into());
                self.g.declare("cnt0", Ty::Num, false);
                self.import_reads.push("cnt0".into());
                self.import_reads.push("D0K.make().dbl()".into());
                self.import_calls.push("inc0".into());
            }
            2 => {
                self.tag("import:namespace");
                self.imports.push("import * as ns0 from \"./dep0.ts\";\nimport { d0a, d0s } from \"./dep0.ts\";".into());
                self.import_reads.push("ns0.d0n".into());
                self.import_reads.push("Object.keys(ns0).sort().join()".into());
                self.import_calls.push("ns0.d0inc".into());
            }
            3 => {
                self.tag("import:default");
                if d0_default != 0 {
                    self.imports.push("import def0, { d0a, d0s, d0n, d0inc } from \"./dep0.ts\";".into());
                    self.import_reads.push(match d0_default {
                        1 => "def0.tag".into(),
                        2 => "def0()".into(),
                        _ => "def0.who()".into(),
                    });
                } else {
                    self.imports.push("import { d0a, d0s, d0n, d0inc } from \"./dep0.ts\";".into());
                }
                self.import_reads.push("d0n".into());
                self.import_calls.push("d0inc".into());
            }
            _ => {
                self.tag("import:side-effect-only");
                self.imports.push("import \"./dep0.ts\";\nimport { d0a, d0s } from \"./dep0.ts\";".into());
            }
        }
        // re-exports from dep0
        if self.g.tape.chance(2, 3) {
            match self.g.tape.below(5) {
                0 => {
                    self.tag("reexport:named");
                    let n = self.fresh("re");
                    self.lines.push(format!("export {{ d0a as {}, d0n as {}n, d0inc as {}inc }} from \"./dep0.ts\";", n, n, n));
                    self.exports.push(ExportInfo { name: n.clone(), kind: ExKind::ReExport });
                    self.exports.push(ExportInfo { name: format!("{}n", n), kind: ExKind::ReExport });
                    self.exports.push(ExportInfo { name: format!("{}inc", n), kind: ExKind::Mutator(format!("{}n", n)) });
                    self.mutators.push(format!("{}inc", n));
                }
                1 => {
                    self.tag("reexport:same-name");
                    self.lines.push("export { d0s } from \"./dep0.ts\";".into());
                    self.exports.push(ExportInfo { name: "d0s".into(), kind: ExKind::ReExport });
                }
                2 if d0_default != 0 => {
                    self.tag("reexport:default-as");
                    let n = self.fresh("rd");
                    self.lines.push(format!("export {{ default as {} }} from \"./dep0.ts\";", n));
                    self.exports.push(ExportInfo { name: n, kind: ExKind::ReExport });
                }
                3 => {
                    self.tag("reexport:star");
                    self.lines.push("export * from \"./dep0.ts\";".into());
                }
                _ => {
                    self.tag("reexport:star-as");
                    let n = self.fresh("nsx");
                    self.lines.push(format!("export * as {} from \"./dep0.ts\";", n));
                    self.exports.push(ExportInfo { name: n, kind: ExKind::ReExport });
                }
            }
        }
        if ndeps >= 2 {
            // dep1 lives in a sub-directory and imports dep0 itself (request with importer = dep1 when dep0 was
            // not requested by the entry module)
            self.tag("import:nested-dependency");
            let mut d1 = String::from("import { d0a, d0inc } from \"../dep0.ts\";\nconsole.log(\"load:dep1:\" + d0a);\nexport const d1a = d0a + 1;\nexport function d1f(x) { return d0inc(x) + d1a; }\n");
            if self.g.tape.chance(1, 2) {
                d1.push_str("export { d0a as d1re } from \"../dep0.ts\";\n");
            }
            if self.g.tape.chance(1, 3) {
                d1.push_str("export default [d1a, \"dep1\"];\n");
            }
            self.modules.insert("/lib/dep1.ts".into(), d1);
            self.dep_specs.push("./lib/dep1.ts".into());
            if self.g.tape.chance(1, 2) {
                self.imports.push("import { d1a, d1f } from \"./lib/dep1.ts\";".into());
            } else {
                self.imports.push("import * as ns1 from \"./lib/dep1.ts\";\nimport { d1a, d1f } from \"./lib/dep1.ts\";".into());
                self.import_reads.push("Object.keys(ns1).sort().join()".into());
            }
            self.g.declare("d1a", Ty::Num, false);
            self.import_calls.push("d1f".into());
            if self.g.tape.chance(1, 3) {
                self.tag("reexport:from-nested");
                let n = self.fresh("r1");
                self.lines.push(format!("export {{ d1a as {} }} from \"./lib/dep1.ts\";", n));
                self.exports.push(ExportInfo { name: n, kind: ExKind::ReExport });
            }
        }
    }

    /// `export .. from "int:lib"` as the only mention of the library, placed after earlier exports
    fn emit_lazy_lib(&mut self) {
        self.lazy_lib = false;
        self.tag("reexport:lazy-internal-after-exports");
        match self.g.tape.below(4) {
            0 => {
                self.tag("reexport:lazy-internal:named");
                let n = self.fresh("rel");
                self.lines.push(format!("export {{ libA as {}, libN as {}n, libInc as {}inc }} from \"int:lib\";", n, n, n));
                self.exports.push(ExportInfo { name: n.clone(), kind: ExKind::ReExport });
                self.exports.push(ExportInfo { name: format!("{}n", n), kind: ExKind::ReExport });
                self.exports.push(ExportInfo { name: format!("{}inc", n), kind: ExKind::Mutator(format!("{}n", n)) });
            }
            1 => {
                self.tag("reexport:lazy-internal:star");
                self.lines.push("export * from \"int:lib\";".into());
                self.exports.push(ExportInfo { name: "libA".into(), kind: ExKind::ReExport });
                self.exports.push(ExportInfo { name: "libN".into(), kind: ExKind::ReExport });
                self.exports.push(ExportInfo { name: "libInc".into(), kind: ExKind::Mutator("libN".into()) });
                self.exports.push(ExportInfo { name: "libObj".into(), kind: ExKind::ReExport });
            }
            2 => {
                self.tag("reexport:lazy-internal:star-as");
                let n = self.fresh("nsl");
                self.lines.push(format!("export * as {} from \"int:lib\";", n));
                self.exports.push(ExportInfo { name: n, kind: ExKind::ReExport });
            }
            _ => {
                self.tag("reexport:lazy-internal:default-as");
                let n = self.fresh("rld");
                self.lines.push(format!("export {{ default as {} }} from \"int:lib\";", n));
                self.exports.push(ExportInfo { name: n, kind: ExKind::ReExport });
            }
        }
    }

    // ---------------------------------------------------------------- C19 statements
    fn c19_stmt(&mut self) {
        if self.ended {
            return;
        }
        let m = self.o.module;
        let aw = self.o.top_await;
        //            0 econst 1 elet 2 efn 3 eclass 4 edefault 5 elist 6 edestr 7 order 8 order-try 9 order-callee
        //            10 deferred 11 cancel 12 exported-ask 13 use-imports 14 throw-top 15 throw-callee 16 caught 17 error-response-uncaught 18 call mutator
        let w: [u32; 24] = [
            if m { 6 } else { 0 },
            if m { 5 } else { 0 },
            if m { 4 } else { 0 },
            if m { 3 } else { 0 },
            if m && !self.has_default { 4 } else { 0 },
            if m { 3 } else { 0 },
            if m { 2 } else { 0 },
            if aw { 7 } else { 0 },
            if aw { 3 } else { 0 },
            if aw { 4 } else { 0 },
            if aw { 3 } else { 0 },
            if aw { 2 } else { 0 },
            if m { 3 } else { 0 },
            if self.import_reads.is_empty() && self.import_calls.is_empty() { 0 } else { 6 },
            1,
            1,
            2,
            if aw { 1 } else { 0 },
            if self.mutators.is_empty() { 0 } else { 3 },
            if aw { 3 } else { 0 },
            if self.o.local_async { 3 } else { 0 },
            if self.o.local_async { 3 } else { 0 },
            if aw { 3 } else { 0 },
            if self.lazy_lib && !self.exports.is_empty() { 8 } else { 0 },
        ];
        match self.g.tape.weighted(&w) {
            0 => {
                self.tag("export:const");
                let n = self.fresh("ec");
                let (e, ty) = self.json_expr();
                self.lines.push(format!("export const {} = {};", n, e));
                self.g.declare(&n, ty, false);
                self.exports.push(ExportInfo { name: n, kind: ExKind::Const });
            }
            1 => {
                self.tag("export:let+mutator");
                let n = self.fresh("el");
                let b = format!("bump{}", self.n);
                let init = self.small_num();
                self.lines.push(format!("export let {} = {};", n, init));
                self.lines.push(format!("export function {}(x) {{ {} = {} + x; return {}; }}", b, n, n, n));
                self.g.declare(&n, Ty::Num, false);
                self.exports.push(ExportInfo { name: n.clone(), kind: ExKind::Let });
                self.exports.push(ExportInfo { name: b.clone(), kind: ExKind::Mutator(n) });
                self.mutators.push(b);
            }
            2 => {
                let n = self.fresh("ef");
                match self.g.tape.below(3) {
                    0 => {
                        self.tag("export:function");
                        let (e, _) = self.json_expr();
                        self.lines.push(format!("export function {}(a, b) {{ return [a, b, {}]; }}", n, e));
                        self.exports.push(ExportInfo { name: n, kind: ExKind::Fn });
                    }
                    1 => {
                        self.tag("export:generator-function");
                        self.lines.push(format!("export function* {}(a) {{ yield a; yield a + 1; return 0; }}", n));
                        self.exports.push(ExportInfo { name: n, kind: ExKind::Gen });
                    }
                    _ => {
                        self.tag("export:arrow-const");
                        self.lines.push(format!("export const {} = (a, b) => [b, a];", n));
                        self.exports.push(ExportInfo { name: n, kind: ExKind::Fn });
                    }
                }
            }
            3 => {
                self.tag("export:class");
                let n = format!("EC{}", { self.n += 1; self.n });
                self.lines.push(format!("export class {} {{ static tag = \"{}\"; constructor(v) {{ this.v = v; }} twice() {{ return this.v * 2; }} }}", n, n));
                self.exports.push(ExportInfo { name: n, kind: ExKind::Class });
            }
            4 => {
                self.has_default = true;
                match self.g.tape.below(6) {
                    0 => {
                        self.tag("export:default-expression");
                        let (e, _) = self.json_expr();
                        self.lines.push(format!("export default ({});", e));
                        self.exports.push(ExportInfo { name: "default".into(), kind: ExKind::Default("value") });
                    }
                    1 => {
                        self.tag("export:default-function-anonymous");
                        self.lines.push("export default function (a) { return [\"dflt\", a]; }".into());
                        self.exports.push(ExportInfo { name: "default".into(), kind: ExKind::Default("fn") });
                    }
                    2 => {
                        self.tag("export:default-function-named");
                        self.lines.push("export default function dfltNamed(a) { return [\"dfltNamed\", a]; }".into());
                        self.exports.push(ExportInfo { name: "default".into(), kind: ExKind::Default("fn") });
                    }
                    3 => {
                        self.tag("export:default-class");
                        self.lines.push("export default class { static tag = \"dfltClass\"; constructor(v) { this.v = v; } twice() { return this.v * 2; } }".into());
                        self.exports.push(ExportInfo { name: "default".into(), kind: ExKind::Default("class") });
                    }
                    4 => {
                        self.tag("export:default-arrow");
                        self.lines.push("export default (a) => [\"arrow\", a];".into());
                        self.exports.push(ExportInfo { name: "default".into(), kind: ExKind::Default("fn") });
                    }
                    _ => {
                        self.tag("export:default-object");
                        let (e, _) = self.json_expr();
                        self.lines.push(format!("export default {{ tag: \"dflt\", v: {} }};", e));
                        self.exports.push(ExportInfo { name: "default".into(), kind: ExKind::Default("value") });
                    }
                }
            }
            5 => {
                // export { v as x, w } for program variables declared so far (JSON-friendly types only)
                let cands: Vec<String> = self
                    .g
                    .scopes
                    .first()
                    .map(|s| s.iter().filter(|v| v.name.starts_with('v') && matches!(v.ty, Ty::Num | Ty::Str | Ty::Bool | Ty::Arr(_) | Ty::Rec(_) | Ty::Nul)).map(|v| v.name.clone()).collect())
                    .unwrap_or_default();
                let cands: Vec<String> = cands.into_iter().filter(|c| !self.exported_vars.contains(c)).collect();
                if cands.is_empty() {
                    return;
                }
                self.tag("export:list");
                let a = cands[self.g.tape.below(cands.len())].clone();
                self.exported_vars.insert(a.clone());
                let x = self.fresh("x");
                let mut items = vec![format!("{} as {}", a, x)];
                self.exports.push(ExportInfo { name: x, kind: ExKind::Listed });
                if let Some(b) = cands.iter().find(|c| **c != a) {
                    if self.g.tape.chance(1, 2) {
                        items.push(b.clone());
                        self.exported_vars.insert(b.clone());
                        self.exports.push(ExportInfo { name: b.clone(), kind: ExKind::Listed });
                    }
                }
                // either right here or at the very end of the module
                let line = format!("export {{ {} }};", items.join(", "));
                if self.g.tape.chance(1, 2) { self.lines.push(line) } else { self.tail.push(line) }
            }
            6 => {
                self.tag("export:destructuring");
                let a = self.fresh("ed");
                let b = format!("{}b", a);
                let (e, _) = self.json_expr();
                self.lines.push(format!("export const {{ p: {}, q: {} }} = {{ p: {}, q: \"q\" }};", a, b, e));
                self.exports.push(ExportInfo { name: a, kind: ExKind::Const });
                self.exports.push(ExportInfo { name: b, kind: ExKind::Const });
            }
            7 => {
                self.tag("order:top-level-await");
                let kind = self.value_kind();
                let k = self.key(kind);
                let o = self.fresh("o");
                let (e, _) = self.json_expr();
                self.lines.push(format!("const {} = await order({{k: {}, v: {}}});", o, k, e));
                let t = self.t(&o);
                self.lines.push(t);
                match kind {
                    "v" => self.g.declare(&o, Ty::Num, false),
                    "s" => self.g.declare(&o, Ty::Str, false),
                    _ => {}
                }
            }
            8 => {
                self.tag("order:error-response-caught");
                let k = self.key("e");
                let o = self.fresh("o");
                self.lines.push(format!("let {};\ntry {{ {} = await order({{k: {}}}); }} catch (e) {{ {} = \"caught:\" + e; }}", o, o, k, o));
                let t = self.t(&o);
                self.lines.push(t);
            }
            9 => {
                self.tag("order:in-async-callee");
                let kind = self.value_kind();
                let k = self.key(kind);
                let f = self.fresh("ask");
                let o = self.fresh("o");
                self.lines.push(format!("async function {}(x) {{ const r = await order({{k: {}, x: x}}); return [r, x]; }}", f, k));
                let arg = self.small_num();
                if self.g.tape.chance(1, 3) {
                    self.tag("order:callee-not-awaited-at-once");
                    self.lines.push(format!("const {}p = {}({});", o, f, arg));
                    let (e, _) = self.json_expr();
                    let t = self.t(&e);
                    self.lines.push(t);
                    self.lines.push(format!("const {} = await {}p;", o, o));
                } else {
                    self.lines.push(format!("const {} = await {}({});", o, f, arg));
                }
                let t = self.t(&o);
                self.lines.push(t);
                self.ask_fns.push(f);
            }
            10 => {
                let o = self.fresh("o");
                if self.g.tape.chance(1, 2) {
                    self.tag("order:host-promise");
                    let k = self.key("p");
                    self.lines.push(format!("const {}p = order({{k: {}}});", o, k));
                    self.lines.push(format!("const {} = await {}p;", o, o));
                } else {
                    self.tag("order:promise-all-host-promises");
                    let k1 = self.key("p");
                    let second = if self.g.tape.chance(1, 2) { "p" } else { "v" };
                    let k2 = self.key(second);
                    self.lines.push(format!("const {} = await Promise.all([order({{k: {}}}), order({{k: {}}})]);", o, k1, k2));
                }
                let t = self.t(&o);
                self.lines.push(t);
            }
            11 => {
                self.tag("order:cancel");
                self.uses_cancel = true;
                self.uses_orders = true;
                let id = 900 + self.small_num();
                self.lines.push(format!("__cancelOrder__({});", id));
            }
            12 => {
                self.tag("export:async-function-with-order");
                let kind = self.value_kind();
                let k = self.key(kind);
                let f = self.fresh("eask");
                self.lines.push(format!("export async function {}(x) {{ const r = await order({{k: {}, x: x}}); return [\"{}\", r, x]; }}", f, k, f));
                self.exports.push(ExportInfo { name: f.clone(), kind: ExKind::Ask });
                if aw && self.g.tape.chance(1, 2) {
                    let arg = self.small_num();
                    let t = self.t(&format!("await {}({})", f, arg));
                    self.lines.push(t);
                }
            }
            13 => {
                self.tag("use:imported-bindings");
                let mut parts = vec![];
                if !self.import_reads.is_empty() {
                    let i = self.g.tape.below(self.import_reads.len());
                    parts.push(self.import_reads[i].clone());
                }
                if !self.import_calls.is_empty() {
                    let i = self.g.tape.below(self.import_calls.len());
                    let arg = self.small_num();
                    parts.push(format!("{}({})", self.import_calls[i], arg));
                }
                if !self.import_reads.is_empty() {
                    // read again after the call: live binding
                    let i = self.g.tape.below(self.import_reads.len());
                    parts.push(self.import_reads[i].clone());
                }
                let t = self.t(&format!("[{}]", parts.join(", ")));
                self.lines.push(t);
            }
            14 => {
                if self.g.tape.chance(1, 3) {
                    self.tag("error:throw-top-level");
                    let cls = *self.g.tape.pick(&["Error", "TypeError", "RangeError"]);
                    self.lines.push(format!("throw new {}(\"top{}\");", cls, self.n));
                    self.ended = true;
                }
            }
            15 => {
                let f = self.fresh("boom");
                self.lines.push(format!("function {}(d) {{ if (d === 0) {{ return null.x; }} return {}(d - 1) + 1; }}", f, f));
                self.boom_fns.push(f.clone());
                if self.g.tape.chance(1, 3) {
                    self.tag("error:uncaught-in-callee");
                    self.lines.push(format!("{}(2);", f));
                    self.ended = true;
                }
            }
            16 => {
                self.tag("error:caught-in-callee");
                let f = match self.boom_fns.last() {
                    Some(f) => f.clone(),
                    None => {
                        let f = self.fresh("boom");
                        self.lines.push(format!("function {}(d) {{ if (d === 0) {{ throw new RangeError(\"deep\"); }} return {}(d - 1) + 1; }}", f, f));
                        self.boom_fns.push(f.clone());
                        f
                    }
                };
                let t = self.t("String(e)");
                self.lines.push(format!("try {{ {}(3); }} catch (e) {{ {} }}", f, t));
            }
            17 => {
                if self.g.tape.chance(1, 2) {
                    self.tag("error:error-response-uncaught");
                    let k = self.key("e");
                    self.lines.push(format!("await order({{k: {}}});", k));
                    self.ended = true;
                }
            }
            19 => {
                // an async callee parked on a host promise while the caller goes on (possibly to the
                // end of the program: the run then ends in Suspended with nothing pending)
                self.tag("order:background-callee-on-host-promise");
                let k = self.key("p");
                let f = self.fresh("bg");
                self.lines.push(format!("const {}p = order({{k: {}}});", f, k));
                let t = self.t(&format!("[\"{}\", v]", f));
                self.lines.push(format!("async function {}() {{ const v = await {}p; {} return v; }}", f, f, t));
                if self.g.tape.chance(1, 3) {
                    self.lines.push(format!("const {}r = {}();", f, f));
                    self.tail.push(format!("await {}r;", f));
                } else {
                    self.lines.push(format!("{}();", f));
                }
            }
            20 => {
                // an async callee parked on a promise of the program itself; the program may resolve it later,
                // or never (the run then ends suspended with nothing pending)
                let f = self.fresh("bgp");
                self.lines.push(format!("let {}res;\nconst {}pr = new Promise((r) => {{ {}res = r; }});", f, f, f));
                let t = self.t(&format!("[\"{}\", v]", f));
                self.lines.push(format!("async function {}() {{ const v = await {}pr; {} return v; }}", f, f, t));
                self.lines.push(format!("const {}r = {}();", f, f));
                let arg = self.small_num();
                match self.g.tape.below(4) {
                    0 => {
                        self.tag("async:background-callee-resolved-at-once");
                        self.lines.push(format!("{}res({});", f, arg));
                    }
                    1 => {
                        self.tag("async:background-callee-resolved-at-end");
                        self.tail.push(format!("{}res({});", f, arg));
                    }
                    2 => {
                        self.tag("async:background-callee-awaited-at-end");
                        self.tail.push(format!("{}res({});\nawait {}r;", f, arg, f));
                    }
                    _ => {
                        self.tag("async:background-callee-never-resolved");
                    }
                }
            }
            21 => {
                let a = self.fresh("aw");
                let (e, _) = self.json_expr();
                match self.g.tape.below(3) {
                    0 => {
                        self.tag("async:top-level-await-resolved-promise");
                        self.lines.push(format!("const {} = await Promise.resolve({});", a, e));
                    }
                    1 => {
                        self.tag("async:top-level-await-new-promise");
                        self.lines.push(format!("const {} = await new Promise((r) => r({}));", a, e));
                    }
                    _ => {
                        self.tag("async:top-level-await-async-call");
                        self.lines.push(format!("async function {}f(x) {{ const y = await x; return [y]; }}\nconst {} = await {}f({});", a, a, a, e));
                    }
                }
                let t = self.t(&a);
                self.lines.push(t);
            }
            22 => {
                // orders issued by a native caller (Array.prototype.map calling `order` directly) do not suspend: they stay pending and are handed to the
                // host with the next suspension (an order, an await of a pending host promise) or at the end
                let m = self.fresh("mo");
                let kind = ["v", "s"][self.g.tape.below(2)];
                let kv = self.key(kind);
                let count = self.g.tape.range(1, 3);
                // `order` itself is the callback: a native called by a native returns its pending-order marker as a value
                let payloads: String = (1..=count).map(|i| format!("{{k: {}, x: {}}}", kv, i)).collect::<Vec<_>>().join(", ");
                let variant = self.g.tape.weighted(&[4, 4, 1]);
                if variant == 2 {
                    // the pending orders travel with a promise suspension that nobody can end: the run ends "stuck"
                    self.tag("order:in-native-callback-then-await-pending-local-promise");
                    self.lines.push(format!("const {} = [{}].map(order);", m, payloads));
                    self.lines.push(format!("await new Promise((r) => {{ {}.push(r); }});", m));
                    self.ended = true;
                } else if variant == 0 {
                    self.tag("order:in-native-callback");
                    self.lines.push(format!("const {} = [{}].map(order);", m, payloads));
                    let t = self.t(&format!("{}.length", m));
                    self.lines.push(t);
                } else {
                    self.tag("order:in-native-callback-then-await-host-promise");
                    let kp = self.key("p");
                    self.lines.push(format!("const {}hp = order({{k: {}}});", m, kp));
                    self.lines.push(format!("const {} = [{}].map(order);", m, payloads));
                    self.lines.push(format!("const {}r = await {}hp;", m, m));
                    let t = self.t(&format!("[{}.length, {}r]", m, m));
                    self.lines.push(t);
                }
            }
            23 => self.emit_lazy_lib(),
            _ => {
                self.tag("use:call-exported-mutator");
                let i = self.g.tape.below(self.mutators.len());
                let arg = self.small_num();
                let f = self.mutators[i].clone();
                if f.ends_with("inc") && f.starts_with("re") {
                    // re-exported name is not a local binding
                    return;
                }
                let t = self.t(&format!("{}({})", f, arg));
                self.lines.push(t);
            }
        }
    }

    fn build(mut self) -> Built {
        self.g.deferred.push(vec![]);
        self.add_deps();
        let total = self.g.tape.range(1, self.o.max_stmts as i64) as usize;
        self.g.stmt_budget = total;
        let c19_share = if self.o.module || self.o.top_await { 5 } else { 2 };
        while self.g.stmt_budget > 0 && !self.ended {
            self.g.stmt_budget -= 1;
            if self.g.tape.weighted(&[6, c19_share]) == 1 {
                self.c19_stmt();
            } else {
                let s = self.g.stmt(0);
                self.lines.push(render_plain(&s));
            }
        }
        // make sure the interesting shape is there at all
        if self.o.module && self.exports.is_empty() {
            self.tag("export:const");
            self.lines.push("export const ecz = [1, \"z\"];".into());
            self.exports.push(ExportInfo { name: "ecz".into(), kind: ExKind::Const });
        }
        if self.lazy_lib {
            // at the latest here: at least one export statement precedes it
            self.emit_lazy_lib();
        }
        let d = self.g.deferred.pop().unwrap_or_default();
        for l in d {
            self.lines.push(render_plain(&l));
        }
        let tail = std::mem::take(&mut self.tail);
        self.lines.extend(tail);
        let vars: Vec<String> = self.g.scopes.first().map(|s| s.iter().filter(|v| !matches!(v.ty, Ty::Func(..)) && v.name.starts_with('v')).map(|v| v.name.clone()).collect()).unwrap_or_default();
        let fin = if vars.is_empty() { "__show(0)".to_string() } else { format!("__show([{}])", vars.join(", ")) };
        if !self.ended {
            self.lines.push(fin);
        }
        let mut head: Vec<String> = vec![];
        if self.uses_orders {
            head.push("import { order, __cancelOrder__ } from \"tsrun:host\";".into());
        }
        head.extend(self.imports.clone());
        let src = format!("{}\n{}{}\n", head.join("\n"), SHOW_PRELUDE, ind_lines(&self.lines.join("\n")));
        let has_imports = !self.dep_specs.is_empty() || self.uses_int_lib;
        Built { src, modules: self.modules, kinds: self.kinds, tags: self.g.tags.clone(), exports: self.exports, excluded: self.g.excluded.clone(), has_imports, uses_orders: self.uses_orders }
    }
}

fn builder<'t, 'a, 'g>(tape: &'t mut Tape<'a>, gates: &'g Gates, o: Opts) -> MB<'t, 'a, 'g> {
    let cfg = Config::full(o.max_stmts);
    let g = Gen::new(tape, gates, cfg);
    MB {
        g,
        o,
        imports: vec![],
        lines: vec![],
        tail: vec![],
        kinds: BTreeMap::new(),
        next_k: 1,
        n: 0,
        tid: 0,
        exports: vec![],
        has_default: false,
        exported_vars: BTreeSet::new(),
        modules: BTreeMap::new(),
        import_reads: vec![],
        import_calls: vec![],
        dep_specs: vec![],
        uses_orders: false,
        uses_cancel: false,
        lazy_lib: false,
        uses_int_lib: false,
        ended: false,
        ask_fns: vec![],
        mutators: vec![],
        boom_fns: vec![],
    }
}

pub fn generate(tape: &mut Tape, ctx: &Ctx) -> Value {
    let max = if ctx.tier == Tier::Quick { 12 } else { 24 };
    let gates = ctx.gates.only_prefixed("C19:");
    if tape.weighted(&[2, 1]) == 0 {
        gen_entry(tape, &gates, max)
    } else {
        gen_role(tape, &gates, max)
    }
}

fn gen_entry(tape: &mut Tape, gates: &Gates, max: usize) -> Value {
    let shape = tape.weighted(&[1, 3, 8]);
    let o = match shape {
        0 => Opts { module: false, top_await: false, host_deps: false, internal_lib: false, max_stmts: max, main_path: "", local_async: true },
        1 => Opts { module: false, top_await: true, host_deps: false, internal_lib: false, max_stmts: max, main_path: "", local_async: true },
        _ => {
            // one module in four also imports the internal source library (then only the Rust entry points
            // run: the C API cannot register source modules)
            let lib = tape.chance(1, 4);
            Opts { module: true, top_await: true, host_deps: true, internal_lib: lib, max_stmts: max, main_path: "/main.ts", local_async: true }
        }
    };
    let module = o.module;
    let with_lib = o.internal_lib;
    let reads: Vec<u32> = (0..10).map(|_| tape.raw()).collect();
    let b = builder(tape, gates, o).build();
    let expected: BTreeSet<String> = b.exports.iter().map(|e| e.name.clone()).collect();
    let mut tags: Vec<String> = b.tags.into_iter().collect();
    tags.push(if module { "case:entry-module".into() } else { "case:entry-script".into() });
    let mut internals = BTreeMap::new();
    if with_lib {
        internals.insert("int:lib".to_string(), INT_LIB.to_string());
    }
    json!({"kind": "entry", "path": if module { json!("/main.ts") } else { Value::Null }, "src": b.src, "modules": b.modules, "internals": internals, "kinds": b.kinds, "reads": reads, "tags": tags, "excluded": b.excluded, "expected_exports": expected})
}

fn gen_role(tape: &mut Tape, gates: &Gates, max: usize) -> Value {
    // variant three: every role incl. internal source (imports: internal modules only);
    // variant two: entry module vs host-provided dependency, the module imports a host-provided dependency
    let three = tape.weighted(&[3, 2]) == 0;
    let o = Opts { module: true, top_await: false, host_deps: !three, internal_lib: true, max_stmts: max.min(10), main_path: "/m.ts", local_async: false };
    let mut b = builder(tape, gates, o);
    // role modules always get the live-binding pair and usually an ordering function
    b.tag("export:let+mutator");
    b.lines.push("export let count = 0;".into());
    b.lines.push("export function incr(x) { count = count + x; return count; }".into());
    b.exports.push(ExportInfo { name: "count".into(), kind: ExKind::Let });
    b.exports.push(ExportInfo { name: "incr".into(), kind: ExKind::Mutator("count".into()) });
    b.mutators.push("incr".into());
    let tape_choice = b.g.tape.raw();
    let b = b.build();
    // importer
    let mut imp = String::new();
    imp.push_str("import * as ns from \"__M__\";\n");
    let named: Vec<&ExportInfo> = b.exports.iter().filter(|e| e.name != "default").collect();
    let mut bind_names: Vec<String> = vec![];
    let mut bind_fns: BTreeMap<String, String> = BTreeMap::new();
    if !named.is_empty() {
        let mut parts = vec![];
        for (i, e) in named.iter().enumerate() {
            // bind about two thirds of the known names
            if (tape_choice >> (i % 30)) & 3 != 0 {
                let local = format!("__i{}", i);
                parts.push(format!("{} as {}", e.name, local));
                bind_names.push(local.clone());
                bind_fns.insert(e.name.clone(), local);
            }
        }
        if !parts.is_empty() {
            imp.push_str(&format!("import {{ {} }} from \"__M__\";\n", parts.join(", ")));
        }
    }
    let has_default = b.exports.iter().any(|e| e.name == "default");
    if has_default {
        imp.push_str("import __dflt from \"__M__\";\n");
        bind_names.push("__dflt".into());
    }
    imp.push_str("const __names = Object.keys(ns).sort();\n");
    imp.push_str("function __val(v) { return typeof v === \"function\" ? \"function\" : v; }\n");
    imp.push_str("function __snap() { const o = {}; for (const n of __names) { o[n] = __val(ns[n]); } return o; }\n");
    imp.push_str(&format!("function __bind() {{ return [{}]; }}\n", bind_names.iter().map(|n| format!("__val({})", n)).collect::<Vec<_>>().join(", ")));
    imp.push_str("const __types = {};\nfor (const n of __names) { __types[n] = typeof ns[n]; }\n");
    imp.push_str("const __before = __snap();\nconst __bbefore = __bind();\nconst __calls = [];\n");
    let mut arg = 1;
    for e in &b.exports {
        arg += 1;
        let via_binding = bind_fns.get(&e.name).filter(|_| arg % 2 == 0).cloned();
        let callee = via_binding.unwrap_or_else(|| format!("ns.{}", e.name));
        match &e.kind {
            ExKind::Mutator(_) => imp.push_str(&format!("__calls.push({}({}));\n", callee, arg)),
            ExKind::Fn => imp.push_str(&format!("__calls.push({}({}, \"s\"));\n", callee, arg)),
            ExKind::Gen => imp.push_str(&format!("__calls.push([...{}({})]);\n", callee, arg)),
            ExKind::Ask => imp.push_str(&format!("__calls.push(await {}({}));\n", callee, arg)),
            ExKind::Class => imp.push_str(&format!("__calls.push([{}.tag, new {}({}).twice()]);\n", callee, callee, arg)),
            ExKind::Default("fn") => imp.push_str(&format!("__calls.push(__dflt({}));\n__calls.push(ns.default({}));\n", arg, arg)),
            ExKind::Default("class") => imp.push_str(&format!("__calls.push([__dflt.tag, new __dflt({}).twice()]);\n", arg)),
            _ => {}
        }
    }
    imp.push_str("const __after = __snap();\nconst __bafter = __bind();\n");
    imp.push_str("({names: __names, types: __types, before: __before, bindings_before: __bbefore, calls: __calls, after: __after, bindings_after: __bafter})\n");
    let expected: BTreeSet<String> = b.exports.iter().map(|e| e.name.clone()).collect();
    let mut tags: Vec<String> = b.tags.into_iter().collect();
    tags.push(if three { "case:role-three".into() } else { "case:role-two".into() });
    let roles: Vec<&str> = if three { vec!["main", "provided", "internal"] } else { vec!["main", "provided"] };
    let mut internals = BTreeMap::new();
    internals.insert("int:lib".to_string(), INT_LIB.to_string());
    json!({"kind": "role", "m": b.src, "importer": imp, "modules": b.modules, "internals": internals, "kinds": b.kinds, "roles": roles, "tags": tags,
           "m_has_imports": b.has_imports || b.uses_orders, "excluded": b.excluded, "expected_exports": expected})
}
