//! C09 — module graphs load once, dependencies first, whatever the host's order.
//!
//! A case holds a whole module graph: `sources` (text by canonical path), `entry`, `schedules`
//! (host supply schedules) and — for generated cases (`kind: "graph"`) — `mods`, the structured
//! description the graph MODEL evaluates (`kind: "raw"` pins carry `expect_value`/`expect_exports`
//! instead). Every schedule is run on a fresh interpreter through `engine::drive`.
//!
//! Oracles
//!  * structural, per NeedImports list (derived from the *source texts*: the import relation is
//!    scanned from `from "…"` / `import "…"`): non-empty, pairwise distinct resolved paths, never a
//!    path already supplied/loaded or the entry, `resolved_path` = reference resolution of
//!    (specifier, importer path), importer is a supplied module (None = entry) that really has an
//!    import with that specifier text, at most |modules|+2 rounds;
//!  * structural, on the load log (`console.log("load:<path>")` per body): every reachable module
//!    exactly once, every module after all modules it imports; run ends in Complete;
//!  * metamorphic: completion value and entry exports identical across the (4) schedules;
//!  * model: completion value (a `|`-joined list of labelled observations incl. live-binding
//!    reads before/after `inc()` and `globalThis.__loads`) and entry exports equal the model's.
//!
//! Schedules: mode all|one|some x order req|rev|perm x dup (re-supply, same source, of a path
//! supplied in this or an earlier round — it may already be loaded) [x early: supply of a module
//! that was not requested yet; executed when present in a case but only generated with
//! VERIF_C09_EARLY=1, because provide_module documents supply "for a pending import" only].
//!
//! No open known finding => no gate is consulted (`ctx.gates`) by this generator.

use crate::core::{guarded, Ctx, Exec, Plan, Property, Tier};
use crate::engine::{self, HostAction, RunOpts};
use crate::tape::Tape;
use serde_json::{json, Map, Value};
use std::cell::RefCell;
use std::collections::{BTreeMap, BTreeSet};
use std::rc::Rc;
use tsrun::{JsValue, ModulePath, StepResult};

pub struct C09Prop;
pub static C09: C09Prop = C09Prop;

// ---------------------------------------------------------------------------------------------
// reference path resolver (same algorithm as the C18 reference: join to the importer's directory,
// stack-normalise, clamp at the root) — written from the property text, not from src/lib.rs
// ---------------------------------------------------------------------------------------------
fn ref_resolve(spec: &str, importer: &str) -> Option<String> {
    let bare = !(spec.starts_with('/') || spec.starts_with("./") || spec.starts_with("../"));
    if bare {
        return Some(spec.to_string());
    }
    let joined = if spec.starts_with('/') {
        spec.to_string()
    } else {
        let i = importer.rfind('/')?;
        format!("{}/{}", &importer[..i], spec)
    };
    if !joined.starts_with('/') {
        return None; // relative base: outside this check's domain
    }
    let mut stack: Vec<&str> = Vec::new();
    for seg in joined.split('/') {
        match seg {
            "" | "." => {}
            ".." => {
                stack.pop();
            }
            s => stack.push(s),
        }
    }
    Some(format!("/{}", stack.join("/")))
}

/// Specifiers of every static import / re-export of a module text (our generated module language
/// has one declaration per line and never mentions `from "` inside a string).
fn scan_specs(src: &str) -> Vec<String> {
    let mut out = Vec::new();
    for line in src.lines() {
        let l = line.trim_start();
        if !(l.starts_with("import ") || l.starts_with("import\"") || l.starts_with("import'") || l.starts_with("export ")) {
            continue;
        }
        let after = if let Some(i) = l.find(" from ") {
            Some(&l[i + 6..])
        } else if l.starts_with("import") {
            let r = l[6..].trim_start();
            if r.starts_with('"') || r.starts_with('\'') { Some(r) } else { None }
        } else {
            None
        };
        if let Some(a) = after {
            let a = a.trim_start();
            if let Some(q) = a.chars().next() {
                if q == '"' || q == '\'' {
                    if let Some(end) = a[1..].find(q) {
                        out.push(a[1..1 + end].to_string());
                    }
                }
            }
        }
    }
    out
}

// ---------------------------------------------------------------------------------------------
// running one schedule
// ---------------------------------------------------------------------------------------------
#[derive(Default, Debug, Clone)]
struct RunObs {
    end: String,
    err_text: String,
    loads: Vec<String>,
    other_log: Vec<String>,
    rounds: Vec<Vec<String>>,
    supplied: Vec<String>,
    deviated: bool,
    problems: Vec<(String, String)>,
    exports: BTreeMap<String, String>,
}

impl RunObs {
    fn to_json(&self) -> Value {
        json!({"end": self.end, "err": self.err_text, "loads": self.loads, "rounds": self.rounds, "supplied": self.supplied,
               "deviated": self.deviated, "exports": self.exports, "log": self.other_log,
               "problems": self.problems.iter().map(|(s, m)| format!("{}: {}", s, m)).collect::<Vec<_>>()})
    }
}

struct Graph {
    entry: String,
    sources: BTreeMap<String, String>,
    /// path -> [(specifier, resolved target)] in source order
    imports: BTreeMap<String, Vec<(String, String)>>,
    reachable: BTreeSet<String>,
}

impl Graph {
    fn from_case(case: &Value) -> Result<Graph, String> {
        let entry = case["entry"].as_str().ok_or("no entry")?.to_string();
        let mut sources = BTreeMap::new();
        for (k, v) in case["sources"].as_object().ok_or("no sources")? {
            sources.insert(k.clone(), v.as_str().ok_or("source not a string")?.to_string());
        }
        if !sources.contains_key(&entry) {
            return Err("entry has no source".into());
        }
        let mut imports = BTreeMap::new();
        for (p, src) in &sources {
            let mut v = Vec::new();
            for spec in scan_specs(src) {
                let t = ref_resolve(&spec, p).ok_or_else(|| format!("specifier {:?} in {} outside domain", spec, p))?;
                v.push((spec, t));
            }
            imports.insert(p.clone(), v);
        }
        // reachability + acyclicity (domain: acyclic graphs whose every target has a source)
        let mut reachable = BTreeSet::new();
        let mut stack = vec![entry.clone()];
        while let Some(p) = stack.pop() {
            if !reachable.insert(p.clone()) {
                continue;
            }
            for (spec, t) in imports.get(&p).map(|v| v.as_slice()).unwrap_or(&[]) {
                if !sources.contains_key(t) {
                    return Err(format!("{} imports {:?} = {} which has no source", p, spec, t));
                }
                stack.push(t.clone());
            }
        }
        // Kahn
        let mut indeg: BTreeMap<&String, usize> = reachable.iter().map(|p| (p, 0)).collect();
        for p in &reachable {
            let ts: BTreeSet<&String> = imports[p].iter().map(|(_, t)| t).collect();
            for t in ts {
                *indeg.get_mut(t).unwrap() += 1;
            }
        }
        let mut q: Vec<&String> = indeg.iter().filter(|(_, d)| **d == 0).map(|(p, _)| *p).collect();
        let mut seen = 0;
        while let Some(p) = q.pop() {
            seen += 1;
            let ts: BTreeSet<&String> = imports[p].iter().map(|(_, t)| t).collect();
            for t in ts {
                let d = indeg.get_mut(t).unwrap();
                *d -= 1;
                if *d == 0 {
                    q.push(t);
                }
            }
        }
        if seen != reachable.len() {
            return Err("graph has a cycle".into());
        }
        Ok(Graph { entry, sources, imports, reachable })
    }
    fn targets(&self, p: &str) -> BTreeSet<&String> {
        self.imports.get(p).map(|v| v.iter().map(|(_, t)| t).collect()).unwrap_or_default()
    }
}

fn export_render(v: &JsValue) -> String {
    match v {
        JsValue::Object(_) => "object".into(),
        other => engine::render_js(other),
    }
}

struct Picks<'a> {
    v: &'a [u64],
    i: usize,
}
impl Picks<'_> {
    fn next(&mut self) -> u64 {
        if self.v.is_empty() {
            return 0;
        }
        let x = self.v[self.i % self.v.len()];
        self.i += 1;
        x
    }
}

fn run_schedule(g: &Graph, sched: &Value) -> RunObs {
    let mode = sched["mode"].as_str().unwrap_or("all").to_string();
    let order = sched["order"].as_str().unwrap_or("req").to_string();
    let dup = sched["dup"].as_bool().unwrap_or(false);
    let early = sched["early"].as_bool().unwrap_or(false);
    let picks_v: Vec<u64> = sched["picks"].as_array().map(|a| a.iter().map(|x| x.as_u64().unwrap_or(0)).collect()).unwrap_or_default();
    let max_rounds = g.sources.len() + 2;

    let log = Rc::new(RefCell::new(Vec::new()));
    let obs = RefCell::new(RunObs::default());
    let supplied: RefCell<BTreeSet<String>> = RefCell::new(BTreeSet::new());
    let picks = RefCell::new(Picks { v: &picks_v, i: 0 });
    engine::reset_hooks();
    let r = guarded(|| {
        let mut interp = engine::new_interp(&log);
        let opts = RunOpts { step_budget: 400_000, module_path: Some(g.entry.clone()), ..RunOpts::default() };
        let mut host = |interp: &mut tsrun::Interpreter, r: &StepResult| -> HostAction {
            let StepResult::NeedImports(reqs) = r else {
                obs.borrow_mut().problems.push(("c09:unexpected-suspension".into(), engine::describe_step(r)));
                return HostAction::Stop;
            };
            let mut o = obs.borrow_mut();
            let mut sup = supplied.borrow_mut();
            let mut pk = picks.borrow_mut();
            o.rounds.push(reqs.iter().map(|q| format!("{} => {} <- {}", q.specifier, q.resolved_path.as_str(), q.importer.as_ref().map(|p| p.as_str()).unwrap_or("(entry)"))).collect());
            if o.rounds.len() > max_rounds {
                o.problems.push(("c09:rounds".into(), format!("more than |modules|+2 = {} NeedImports rounds", max_rounds)));
                return HostAction::Stop;
            }
            if reqs.is_empty() {
                o.problems.push(("c09:empty-request".into(), "NeedImports with an empty list".into()));
                return HostAction::Stop;
            }
            let mut seen: BTreeSet<String> = BTreeSet::new();
            let mut fatal = false;
            for q in reqs {
                let rp = q.resolved_path.as_str().to_string();
                let imp: String = match &q.importer {
                    None => g.entry.clone(),
                    Some(p) => {
                        if p.as_str() == g.entry {
                            o.problems.push(("c09:importer".into(), format!("request for {} names the entry module as Some(importer) (documented: None for the main module)", rp)));
                        } else if !sup.contains(p.as_str()) {
                            o.problems.push(("c09:importer".into(), format!("request for {} names importer {} whose source was never supplied", rp, p.as_str())));
                        }
                        p.as_str().to_string()
                    }
                };
                match g.imports.get(&imp) {
                    None => o.problems.push(("c09:importer".into(), format!("request {:?} => {} names importer {} which is not a module of the graph", q.specifier, rp, imp))),
                    Some(list) => {
                        if !list.iter().any(|(s, _)| *s == q.specifier) {
                            o.problems.push(("c09:importer".into(), format!("request {:?} => {}: importer {} has no import with that specifier (its imports: {:?})", q.specifier, rp, imp, list)));
                        }
                    }
                }
                match ref_resolve(&q.specifier, &imp) {
                    Some(exp) if exp == rp => {}
                    exp => o.problems.push(("c09:resolved-path".into(), format!("request {:?} from {}: resolved_path {:?}, reference {:?}", q.specifier, imp, rp, exp))),
                }
                if !seen.insert(rp.clone()) {
                    let m = format!("{} is named twice in one NeedImports list: {:?}", rp, o.rounds.last());
                    o.problems.push(("c09:duplicate-request".into(), m));
                }
                if sup.contains(&rp) || rp == g.entry {
                    let m = format!("{} requested although already supplied (round {})", rp, o.rounds.len());
                    o.problems.push(("c09:request-already-supplied".into(), m));
                }
                if !g.sources.contains_key(&rp) {
                    o.problems.push(("c09:unknown-module".into(), format!("request for {} which is not in the graph", rp)));
                    fatal = true;
                }
            }
            if fatal {
                return HostAction::Stop;
            }
            // --- supply according to the schedule ---
            let k = reqs.len();
            let mut idx: Vec<usize> = (0..k).collect();
            match order.as_str() {
                "rev" => idx.reverse(),
                "perm" => {
                    for i in (1..k).rev() {
                        let j = (pk.next() % (i as u64 + 1)) as usize;
                        idx.swap(i, j);
                    }
                }
                _ => {}
            }
            let count = match mode.as_str() {
                "one" => 1,
                "some" => 1 + (pk.next() % k as u64) as usize,
                _ => k,
            };
            let mut seq: Vec<(ModulePath, String)> = Vec::new();
            if early {
                // a module that some already-known module imports but that was not requested in this round
                let known: Vec<String> = std::iter::once(g.entry.clone()).chain(sup.iter().cloned()).chain(reqs.iter().map(|q| q.resolved_path.as_str().to_string())).collect();
                let mut cands: Vec<String> = Vec::new();
                for p in &known {
                    for t in g.targets(p) {
                        if !sup.contains(t) && !reqs.iter().any(|q| q.resolved_path.as_str() == t) && !cands.contains(t) {
                            cands.push(t.clone());
                        }
                    }
                }
                if !cands.is_empty() && pk.next() % 2 == 0 {
                    let c = cands[(pk.next() % cands.len() as u64) as usize].clone();
                    seq.push((ModulePath::new(c.clone()), c));
                }
            }
            for &i in idx.iter().take(count) {
                seq.push((reqs[i].resolved_path.clone(), reqs[i].resolved_path.as_str().to_string()));
            }
            if dup && pk.next() % 2 == 0 {
                // re-supply (same source) a path supplied in this or an earlier round; it may already be loaded
                let mut cands: Vec<String> = o.supplied.clone();
                cands.extend(seq.iter().map(|(_, s)| s.clone()));
                let d = cands[(pk.next() % cands.len() as u64) as usize].clone();
                seq.push((ModulePath::new(d.clone()), d));
            }
            let straight: Vec<&str> = reqs.iter().map(|q| q.resolved_path.as_str()).collect();
            let given: Vec<&str> = seq.iter().map(|(_, s)| s.as_str()).collect();
            if straight != given {
                o.deviated = true;
            }
            for (mp, p) in seq {
                let src = &g.sources[&p];
                if let Err(e) = interp.provide_module(mp, src) {
                    o.problems.push(("c09:provide-error".into(), format!("provide_module({}) failed: {}", p, e)));
                    return HostAction::Stop;
                }
                sup.insert(p.clone());
                o.supplied.push(p);
            }
            HostAction::Resume
        };
        let (end, err_text, _steps, _trace) = engine::drive(&mut interp, &g.sources[&g.entry], &opts, &mut host);
        let mut exports = BTreeMap::new();
        if end.starts_with("complete:") {
            let mut names = tsrun::api::get_export_names(&interp);
            names.sort();
            for n in names {
                let v = tsrun::api::get_export(&interp, &n);
                exports.insert(n, v.as_ref().map(export_render).unwrap_or_else(|| "<none>".into()));
            }
        }
        drop(interp);
        (end, err_text, exports)
    });
    tsrun::verif_hooks::vm_instr_set_limit(0);
    let mut o = obs.into_inner();
    match r {
        Ok((end, err, exports)) => {
            o.end = end;
            o.err_text = err;
            o.exports = exports;
        }
        Err(p) => {
            o.end = format!("panic:{}", p);
            o.problems.push((p.clone(), format!("panic while loading the graph: {}", p)));
        }
    }
    for l in log.borrow().iter() {
        match l.strip_prefix("load:") {
            Some(p) => o.loads.push(p.to_string()),
            None => o.other_log.push(l.clone()),
        }
    }
    o
}

/// Structural oracle on one finished run (independent of the value model).
fn judge_run(g: &Graph, o: &mut RunObs) {
    if !o.problems.is_empty() {
        return;
    }
    if !o.end.starts_with("complete:") {
        o.problems.push(("c09:no-complete".into(), format!("run ended with {} {}", o.end, o.err_text)));
        return;
    }
    let mut pos: BTreeMap<&str, usize> = BTreeMap::new();
    for (i, p) in o.loads.iter().enumerate() {
        if pos.insert(p.as_str(), i).is_some() {
            o.problems.push(("c09:load-twice".into(), format!("module body of {} ran more than once; load log {:?}", p, o.loads)));
            return;
        }
    }
    for p in &g.reachable {
        if !pos.contains_key(p.as_str()) {
            o.problems.push(("c09:load-missing".into(), format!("module body of {} never ran; load log {:?}", p, o.loads)));
            return;
        }
    }
    for p in o.loads.iter() {
        if !g.reachable.contains(p) {
            o.problems.push(("c09:load-unreachable".into(), format!("{} ran but is not reachable from the entry", p)));
            return;
        }
        for t in g.targets(p) {
            if pos[t.as_str()] > pos[p.as_str()] {
                o.problems.push(("c09:load-order".into(), format!("{} ran before its dependency {}; load log {:?}", p, t, o.loads)));
                return;
            }
        }
    }
}

// ---------------------------------------------------------------------------------------------
// graph model: evaluates the structured description of a case (never looks at tsrun)
// ---------------------------------------------------------------------------------------------
#[derive(Clone, Debug, PartialEq)]
enum Ex {
    Num(i64),
    Str(String),
    /// `export let n<i>` of module i (live: current value is in Model::counters)
    Counter(usize),
    /// `export function inc<i>()`
    Inc(usize),
    /// `export function g<i>_<k>()` returning a reference evaluated at call time
    Getter(usize, usize),
    /// module namespace object of module k
    Ns(usize),
    /// re-export: same binding as export `name` of module k
    Alias(usize, String),
}

#[derive(Clone, Debug)]
struct Ref {
    js: String,
    m: usize,
    p: Vec<String>,
}

fn ref_json(r: &Ref) -> Value {
    json!({"js": r.js, "m": r.m, "p": r.p})
}
fn ref_from(v: &Value) -> Result<Ref, String> {
    Ok(Ref {
        js: v["js"].as_str().ok_or("ref.js")?.to_string(),
        m: v["m"].as_u64().ok_or("ref.m")? as usize,
        p: v["p"].as_array().ok_or("ref.p")?.iter().map(|x| x.as_str().unwrap_or("").to_string()).collect(),
    })
}

struct Model {
    mods: Vec<Value>,
    tables: Vec<BTreeMap<String, Ex>>,
    counters: Vec<i64>,
}

impl Model {
    fn new(n: usize) -> Model {
        Model { mods: vec![Value::Null; n], tables: vec![BTreeMap::new(); n], counters: vec![0; n] }
    }
    /// export `name` of module m with re-export chains followed
    fn lookup(&self, mut m: usize, name: &str) -> Result<Ex, String> {
        let mut name = name.to_string();
        for _ in 0..64 {
            match self.tables.get(m).and_then(|t| t.get(&name)) {
                None => return Err(format!("module m{} has no export {:?}", m, name)),
                Some(Ex::Alias(k, n2)) => {
                    m = *k;
                    name = n2.clone();
                }
                Some(e) => return Ok(e.clone()),
            }
        }
        Err("alias chain too long".into())
    }
    fn resolve(&self, r: &Ref) -> Result<Ex, String> {
        let mut m = r.m;
        for (i, seg) in r.p.iter().enumerate() {
            let ex = self.lookup(m, seg)?;
            if i + 1 == r.p.len() {
                return Ok(ex);
            }
            match ex {
                Ex::Ns(k) => m = k,
                other => return Err(format!("{:?} is not a namespace ({:?})", seg, other)),
            }
        }
        Err("empty ref".into())
    }
    /// current primitive value of a reference, as JS `"" + ref` would print it
    fn show(&self, r: &Ref) -> Result<String, String> {
        match self.resolve(r)? {
            Ex::Num(n) => Ok(n.to_string()),
            Ex::Str(s) => Ok(s),
            Ex::Counter(o) => Ok(self.counters[o].to_string()),
            other => Err(format!("{} is not a primitive: {:?}", r.js, other)),
        }
    }
    fn num(&self, r: &Ref) -> Result<i64, String> {
        match self.resolve(r)? {
            Ex::Num(n) => Ok(n),
            Ex::Counter(o) => Ok(self.counters[o]),
            other => Err(format!("{} is not a number: {:?}", r.js, other)),
        }
    }
    fn eval_num(&self, e: &Value) -> Result<i64, String> {
        let mut v = e["lit"].as_i64().ok_or("numexpr.lit")?;
        for t in e["terms"].as_array().ok_or("numexpr.terms")? {
            let c = t[0].as_i64().ok_or("coef")?;
            v += c * self.num(&ref_from(&t[1])?)?;
        }
        Ok(v)
    }
    fn eval_str(&self, i: usize, e: &Value) -> Result<String, String> {
        let mut parts = Vec::new();
        for r in e["parts"].as_array().ok_or("strexpr.parts")? {
            parts.push(self.show(&ref_from(r)?)?);
        }
        Ok(format!("m{}<{}>", i, parts.join(",")))
    }
    fn type_of(&self, r: &Ref) -> Result<&'static str, String> {
        Ok(match self.resolve(r)? {
            Ex::Num(_) | Ex::Counter(_) => "number",
            Ex::Str(_) => "string",
            Ex::Inc(_) | Ex::Getter(..) => "function",
            Ex::Ns(_) => "object",
            Ex::Alias(..) => return Err("unresolved alias".into()),
        })
    }
    fn call_getter(&self, m: usize, k: usize) -> Result<String, String> {
        let r = ref_from(&self.mods[m]["getters"][k])?;
        self.show(&r)
    }
    /// evaluate module i's body (modules j > i must have been evaluated before: edges go low -> high)
    fn load(&mut self, i: usize) -> Result<(), String> {
        let m = self.mods[i].clone();
        let mut table: BTreeMap<String, Ex> = BTreeMap::new();
        for d in m["decls"].as_array().ok_or("decls")? {
            let to = d["to"].as_u64().ok_or("decl.to")? as usize;
            if to <= i || to >= self.mods.len() {
                return Err(format!("edge m{} -> m{} is not forward", i, to));
            }
            match d["k"].as_str().unwrap_or("") {
                "re" => {
                    for pair in d["names"].as_array().ok_or("re.names")? {
                        let from = pair[0].as_str().ok_or("re.from")?;
                        self.lookup(to, from)?;
                        table.insert(pair[1].as_str().ok_or("re.as")?.to_string(), Ex::Alias(to, from.to_string()));
                    }
                }
                "star" => {
                    let names: Vec<String> = self.tables[to].keys().filter(|k| *k != "default").cloned().collect();
                    for name in names {
                        table.entry(name.clone()).or_insert(Ex::Alias(to, name));
                    }
                }
                "starns" => {
                    table.insert(d["name"].as_str().ok_or("starns.name")?.to_string(), Ex::Ns(to));
                }
                _ => {}
            }
        }
        self.tables[i] = table;
        if let Some(init) = m["counter"].as_i64() {
            self.counters[i] = init;
            self.tables[i].insert(format!("n{}", i), Ex::Counter(i));
            self.tables[i].insert(format!("inc{}", i), Ex::Inc(i));
        }
        if !m["default"].is_null() {
            let v = self.eval_num(&m["default"])?;
            self.tables[i].insert("default".into(), Ex::Num(v));
        }
        let v = self.eval_num(&m["v"])?;
        self.tables[i].insert(format!("v{}", i), Ex::Num(v));
        let s = self.eval_str(i, &m["s"])?;
        self.tables[i].insert(format!("s{}", i), Ex::Str(s));
        for (k, _) in m["getters"].as_array().ok_or("getters")?.iter().enumerate() {
            self.tables[i].insert(format!("g{}_{}", i, k), Ex::Getter(i, k));
        }
        Ok(())
    }
    /// run the entry module's observation script; returns the parts of `result`
    fn run_script(&mut self, nloads: usize) -> Result<Vec<String>, String> {
        let script = self.mods[0]["script"].as_array().cloned().unwrap_or_default();
        let mut out = Vec::new();
        for op in &script {
            let l = op["l"].as_str().unwrap_or("?");
            let r = ref_from(&op["ref"])?;
            match op["op"].as_str().unwrap_or("") {
                "read" => out.push(format!("{}={}", l, self.show(&r)?)),
                "type" => out.push(format!("{}={}", l, self.type_of(&r)?)),
                "get" => match self.resolve(&r)? {
                    Ex::Getter(m, k) => out.push(format!("{}={}", l, self.call_getter(m, k)?)),
                    other => return Err(format!("get on {:?}", other)),
                },
                "inc" => match self.resolve(&r)? {
                    Ex::Inc(o) => {
                        self.counters[o] += 1;
                        out.push(format!("{}={}", l, self.counters[o]));
                    }
                    other => return Err(format!("inc on {:?}", other)),
                },
                other => return Err(format!("unknown op {:?}", other)),
            }
        }
        out.push(format!("loads={}", nloads));
        Ok(out)
    }
    fn expected_exports(&self) -> Result<BTreeMap<String, String>, String> {
        let mut m = BTreeMap::new();
        for name in self.tables[0].keys() {
            let s = match self.lookup(0, name)? {
                Ex::Num(n) => format!("num:{}", engine::fmt_f64(n as f64)),
                Ex::Str(s) => format!("str:{}", s),
                Ex::Counter(o) => format!("num:{}", engine::fmt_f64(self.counters[o] as f64)),
                _ => "object".to_string(),
            };
            m.insert(name.clone(), s);
        }
        Ok(m)
    }
}

// ---------------------------------------------------------------------------------------------
// rendering a structured module to source text
// ---------------------------------------------------------------------------------------------
fn js_num(e: &Value) -> String {
    let mut s = e["lit"].as_i64().unwrap_or(0).to_string();
    for t in e["terms"].as_array().map(|a| a.as_slice()).unwrap_or(&[]) {
        s.push_str(&format!(" + {} * {}", t[0].as_i64().unwrap_or(1), t[1]["js"].as_str().unwrap_or("0")));
    }
    s
}
fn js_str(i: usize, e: &Value) -> String {
    let mut s = format!("\"m{}<\"", i);
    for (k, r) in e["parts"].as_array().map(|a| a.as_slice()).unwrap_or(&[]).iter().enumerate() {
        if k > 0 {
            s.push_str(" + \",\"");
        }
        s.push_str(&format!(" + {}", r["js"].as_str().unwrap_or("0")));
    }
    s.push_str(" + \">\"");
    s
}

fn render_module(m: &Value) -> String {
    let i = m["i"].as_u64().unwrap_or(0) as usize;
    let ts = m["ts"].as_bool().unwrap_or(false);
    let (tn, tstr) = if ts { (": number", ": string") } else { ("", "") };
    let path = m["path"].as_str().unwrap_or("");
    let mut s = String::new();
    for d in m["decls"].as_array().map(|a| a.as_slice()).unwrap_or(&[]) {
        let spec = d["spec"].as_str().unwrap_or("");
        let pairs = |sep: &str| -> String {
            d["names"].as_array().map(|a| a.iter().map(|p| format!("{}{}{}", p[0].as_str().unwrap_or(""), sep, p[1].as_str().unwrap_or(""))).collect::<Vec<_>>().join(", ")).unwrap_or_default()
        };
        match d["k"].as_str().unwrap_or("") {
            "named" => s.push_str(&format!("import {{ {} }} from \"{}\";\n", pairs(" as "), spec)),
            "default" => s.push_str(&format!("import {} from \"{}\";\n", d["local"].as_str().unwrap_or("d"), spec)),
            "ns" => s.push_str(&format!("import * as {} from \"{}\";\n", d["local"].as_str().unwrap_or("ns"), spec)),
            "side" => s.push_str(&format!("import \"{}\";\n", spec)),
            "re" => s.push_str(&format!("export {{ {} }} from \"{}\";\n", pairs(" as "), spec)),
            "star" => s.push_str(&format!("export * from \"{}\";\n", spec)),
            "starns" => s.push_str(&format!("export * as {} from \"{}\";\n", d["name"].as_str().unwrap_or("q"), spec)),
            _ => {}
        }
    }
    s.push_str(&format!("console.log(\"load:{}\");\n", path));
    s.push_str("globalThis.__loads = (globalThis.__loads || 0) + 1;\n");
    if let Some(init) = m["counter"].as_i64() {
        s.push_str(&format!("export let n{i}{tn} = {init};\n"));
        s.push_str(&format!("export function inc{i}(){tn} {{ n{i} = n{i} + 1; return n{i}; }}\n"));
    }
    if !m["default"].is_null() {
        s.push_str(&format!("export default {};\n", js_num(&m["default"])));
    }
    s.push_str(&format!("export const v{i}{tn} = {};\n", js_num(&m["v"])));
    s.push_str(&format!("export const s{i}{tstr} = {};\n", js_str(i, &m["s"])));
    for (k, r) in m["getters"].as_array().map(|a| a.as_slice()).unwrap_or(&[]).iter().enumerate() {
        s.push_str(&format!("export function g{i}_{k}() {{ return {}; }}\n", r["js"].as_str().unwrap_or("0")));
    }
    if i == 0 {
        s.push_str(if ts { "const out: string[] = [];\n" } else { "const out = [];\n" });
        for op in m["script"].as_array().map(|a| a.as_slice()).unwrap_or(&[]) {
            let l = op["l"].as_str().unwrap_or("?");
            let js = op["ref"]["js"].as_str().unwrap_or("0");
            match op["op"].as_str().unwrap_or("") {
                "read" => s.push_str(&format!("out.push(\"{l}=\" + {js});\n")),
                "type" => s.push_str(&format!("out.push(\"{l}=\" + typeof {js});\n")),
                "get" | "inc" => s.push_str(&format!("out.push(\"{l}=\" + {js}());\n")),
                _ => {}
            }
        }
        s.push_str("out.push(\"loads=\" + globalThis.__loads);\n");
        s.push_str(&format!("export const result{tstr} = out.join(\"|\");\n"));
        s.push_str("result;\n");
    }
    s
}

// ---------------------------------------------------------------------------------------------
// generator
// ---------------------------------------------------------------------------------------------
const DIRS: [&str; 6] = ["/app", "/", "/app/lib", "/p", "/app/lib/deep", "/p/q"];

fn dir_segs(path: &str) -> Vec<&str> {
    let i = path.rfind('/').unwrap_or(0);
    path[..i].split('/').filter(|s| !s.is_empty()).collect()
}

/// canonical relative specifier from module `from` to module `to`
fn rel_spec(from: &str, to: &str) -> (String, String) {
    let fd = dir_segs(from);
    let td = dir_segs(to);
    let file = &to[to.rfind('/').map(|i| i + 1).unwrap_or(0)..];
    let mut common = 0;
    while common < fd.len() && common < td.len() && fd[common] == td[common] {
        common += 1;
    }
    let ups = fd.len() - common;
    let pre = if ups == 0 { "./".to_string() } else { "../".repeat(ups) };
    let mut rest = String::new();
    for seg in &td[common..] {
        rest.push_str(seg);
        rest.push('/');
    }
    rest.push_str(file);
    (pre, rest)
}

/// one of several equivalent spellings of the path of `to` as seen from `from`
fn spelling(from: &str, to: &str, variant: usize) -> String {
    let (pre, rest) = rel_spec(from, to);
    let canon = format!("{}{}", pre, rest);
    let fd = dir_segs(from);
    let s = match variant {
        1 => format!("{}zz/../{}", pre, rest),
        2 => format!("{}/{}", pre, rest),
        3 => format!("{}./{}", pre, rest),
        4 => match (pre.as_str(), fd.last()) {
            ("./", Some(d)) => format!("../{}/{}", d, rest),
            _ => canon.clone(),
        },
        5 => to.to_string(),
        6 => format!("/zz/..{}", to),
        7 => match rest.find('/') {
            Some(i) => format!("{}{}/./yy/../{}", pre, &rest[..i], &rest[i + 1..]),
            None => format!("{}yy/zz/../../{}", pre, rest),
        },
        _ => canon.clone(),
    };
    if ref_resolve(&s, from).as_deref() == Some(to) { s } else { canon }
}

#[derive(Clone, Debug)]
struct Bind {
    r: Ref,
    ex: Ex,
}

fn add_bind(model: &Model, binds: &mut Vec<Bind>, js: String, m: usize, p: Vec<String>) {
    let r = Ref { js, m, p };
    let Ok(ex) = model.resolve(&r) else { return };
    if let Ex::Ns(k) = &ex {
        if r.p.len() < 3 {
            let names: Vec<String> = model.tables[*k].keys().cloned().collect();
            for name in names {
                let mut p2 = r.p.clone();
                p2.push(name.clone());
                add_bind(model, binds, format!("{}.{}", r.js, name), r.m, p2);
            }
        }
    }
    binds.push(Bind { r, ex });
}

fn pick_num_expr(t: &mut Tape, binds: &[Bind]) -> Value {
    let nums: Vec<&Bind> = binds.iter().filter(|b| matches!(b.ex, Ex::Num(_) | Ex::Counter(_))).collect();
    let lit = t.below(10) as i64;
    let n = if nums.is_empty() { 0 } else { t.below(4) };
    let terms: Vec<Value> = (0..n).map(|_| json!([1 + t.below(3) as i64, ref_json(&nums[t.below(nums.len())].r)])).collect();
    json!({"lit": lit, "terms": terms})
}

fn gen_module(t: &mut Tape, i: usize, paths: &[String], targets: &[usize], model: &Model) -> Value {
    let mut c = 0usize;
    let mut binds: Vec<Bind> = Vec::new();
    let mut decls: Vec<Value> = Vec::new();
    for &j in targets {
        let ndecl = 1 + t.chance(1, 4) as usize;
        for _ in 0..ndecl {
            let spec = spelling(&paths[i], &paths[j], t.weighted(&[6, 2, 2, 2, 2, 1, 1, 2]));
            let names: Vec<String> = model.tables[j].keys().filter(|k| *k != "default").cloned().collect();
            let has_default = model.tables[j].contains_key("default");
            let live_names: Vec<String> = names.iter().filter(|n| matches!(model.lookup(j, n), Ok(Ex::Counter(_)) | Ok(Ex::Inc(_)))).cloned().collect();
            let kind = t.weighted(&[4, 3, if has_default { 2 } else { 0 }, 2, 2, 1, 1]);
            c += 1;
            match kind {
                0 => {
                    let k = 1 + t.below(3);
                    let mut chosen: Vec<[String; 2]> = Vec::new();
                    for _ in 0..k {
                        let mut name = names[t.below(names.len())].clone();
                        if !live_names.is_empty() && t.chance(1, 2) {
                            name = live_names[t.below(live_names.len())].clone();
                        }
                        let local = format!("a{}_{}_{}", i, c, chosen.len());
                        add_bind(model, &mut binds, local.clone(), j, vec![name.clone()]);
                        // a live counter comes with its inc() so that the importer can change it
                        if let Ok(Ex::Counter(o)) = model.lookup(j, &name) {
                            if let Some(inc) = names.iter().find(|n| model.lookup(j, n).ok() == Some(Ex::Inc(o))) {
                                let l2 = format!("a{}_{}_{}i", i, c, chosen.len());
                                add_bind(model, &mut binds, l2.clone(), j, vec![inc.clone()]);
                                chosen.push([name, local]);
                                chosen.push([inc.clone(), l2]);
                                continue;
                            }
                        }
                        chosen.push([name, local]);
                    }
                    decls.push(json!({"k": "named", "to": j, "spec": spec, "names": chosen}));
                }
                1 => {
                    let local = format!("ns{}_{}", i, c);
                    for name in model.tables[j].keys() {
                        add_bind(model, &mut binds, format!("{}.{}", local, name), j, vec![name.clone()]);
                    }
                    decls.push(json!({"k": "ns", "to": j, "spec": spec, "local": local}));
                }
                2 => {
                    let local = format!("d{}_{}", i, c);
                    add_bind(model, &mut binds, local.clone(), j, vec!["default".into()]);
                    decls.push(json!({"k": "default", "to": j, "spec": spec, "local": local}));
                }
                3 => {
                    let k = 1 + t.below(2);
                    let mut chosen: Vec<[String; 2]> = Vec::new();
                    for _ in 0..k {
                        let mut name = names[t.below(names.len())].clone();
                        if !live_names.is_empty() && t.chance(1, 2) {
                            name = live_names[t.below(live_names.len())].clone();
                        } else if has_default && t.chance(1, 4) {
                            name = "default".to_string(); // export { default as x } from
                        }
                        chosen.push([name, format!("x{}_{}_{}", i, c, chosen.len())]);
                    }
                    decls.push(json!({"k": "re", "to": j, "spec": spec, "names": chosen}));
                }
                4 => decls.push(json!({"k": "star", "to": j, "spec": spec})),
                5 => decls.push(json!({"k": "starns", "to": j, "spec": spec, "name": format!("q{}_{}", i, c)})),
                _ => decls.push(json!({"k": "side", "to": j, "spec": spec})),
            }
        }
    }
    // own counter (leaves get one more often: they are what diamonds share)
    let counter = if t.chance(if targets.is_empty() { 2 } else { 1 }, 3) { json!(t.below(5) as i64) } else { Value::Null };
    if !counter.is_null() {
        binds.push(Bind { r: Ref { js: format!("n{}", i), m: i, p: vec![format!("n{}", i)] }, ex: Ex::Counter(i) });
        binds.push(Bind { r: Ref { js: format!("inc{}", i), m: i, p: vec![format!("inc{}", i)] }, ex: Ex::Inc(i) });
    }
    let default = if t.chance(1, 3) { pick_num_expr(t, &binds) } else { Value::Null };
    let v = pick_num_expr(t, &binds);
    let prims: Vec<&Bind> = binds.iter().filter(|b| matches!(b.ex, Ex::Num(_) | Ex::Counter(_) | Ex::Str(_))).collect();
    let live: Vec<&Bind> = binds.iter().filter(|b| matches!(b.ex, Ex::Counter(_))).collect();
    let nparts = if prims.is_empty() { 0 } else { t.below(4) };
    let parts: Vec<Value> = (0..nparts).map(|_| ref_json(&prims[t.below(prims.len())].r)).collect();
    let ngetters = if prims.is_empty() { 0 } else { t.below(3) };
    let getters: Vec<Value> = (0..ngetters)
        .map(|_| {
            if !live.is_empty() && t.chance(2, 3) {
                ref_json(&live[t.below(live.len())].r)
            } else {
                ref_json(&prims[t.below(prims.len())].r)
            }
        })
        .collect();
    let mut m = json!({"i": i, "path": paths[i], "ts": t.chance(1, 3), "decls": decls, "counter": counter, "default": default,
                       "v": v, "s": {"parts": parts}, "getters": getters});
    if i == 0 {
        // own getters are callable too
        for k in 0..ngetters {
            binds.push(Bind { r: Ref { js: format!("g0_{}", k), m: 0, p: vec![format!("g0_{}", k)] }, ex: Ex::Getter(0, k) });
        }
        let mut ops: Vec<Value> = Vec::new();
        let mut label = 0usize;
        let mut push = |ops: &mut Vec<Value>, pre: &str, b: &Bind| {
            label += 1;
            let op = match b.ex {
                Ex::Num(_) | Ex::Str(_) | Ex::Counter(_) => "read",
                Ex::Getter(..) => "get",
                _ => "type",
            };
            let pre = if op == "type" { "t" } else { pre };
            ops.push(json!({"op": op, "l": format!("{}{}", pre, label), "ref": ref_json(&b.r)}));
        };
        if !binds.is_empty() {
            let nread = 2 + t.below(9);
            for _ in 0..nread {
                let b = binds[t.below(binds.len())].clone();
                push(&mut ops, "r", &b);
            }
        }
        let watch: Vec<Bind> = binds.iter().filter(|b| matches!(b.ex, Ex::Counter(_) | Ex::Getter(..))).take(12).cloned().collect();
        let incs: Vec<Bind> = binds.iter().filter(|b| matches!(b.ex, Ex::Inc(_))).cloned().collect();
        if !incs.is_empty() {
            for b in &watch {
                push(&mut ops, "p", b);
            }
            let ninc = 1 + t.below(4);
            for k in 0..ninc {
                let b = &incs[t.below(incs.len())];
                ops.push(json!({"op": "inc", "l": format!("i{}", k), "ref": ref_json(&b.r)}));
            }
            for b in &watch {
                push(&mut ops, "L", b);
            }
        }
        m["script"] = Value::Array(ops);
    }
    m
}

fn gen_schedule(t: &mut Tape, early_ok: bool) -> Value {
    let mode = *t.pick(&["all", "one", "some"]);
    let order = *t.pick(&["req", "rev", "perm"]);
    let dup = t.chance(1, 3);
    let early = early_ok && t.chance(1, 3);
    let picks: Vec<u64> = (0..10).map(|_| t.below(1000) as u64).collect();
    let mut s = json!({"mode": mode, "order": order, "dup": dup, "picks": picks});
    if early {
        s["early"] = json!(true);
    }
    s
}

fn gen_case(t: &mut Tape, max_mods: usize) -> Value {
    let n = 2 + t.below(max_mods - 1);
    let paths: Vec<String> = (0..n)
        .map(|i| {
            let d = *t.pick(&DIRS);
            if d == "/" { format!("/m{}.ts", i) } else { format!("{}/m{}.ts", d, i) }
        })
        .collect();
    // edges low -> high; every module j > 0 has at least one importer, so all are reachable
    let mut targets: Vec<Vec<usize>> = vec![Vec::new(); n];
    for j in 1..n {
        let parent = t.below(j);
        targets[parent].push(j);
        for i in 0..j {
            if i != parent && t.chance(1, 3) {
                targets[i].push(j);
            }
        }
    }
    let mut model = Model::new(n);
    for i in (0..n).rev() {
        targets[i].sort();
        let m = gen_module(t, i, &paths, &targets[i], &model);
        model.mods[i] = m;
        model.load(i).expect("generated module must be evaluable by the model");
    }
    let mut sources = Map::new();
    for m in &model.mods {
        sources.insert(m["path"].as_str().unwrap_or("").to_string(), json!(render_module(m)));
    }
    let early_ok = std::env::var("VERIF_C09_EARLY").is_ok();
    let schedules = vec![
        json!({"mode": "all", "order": "req"}),
        json!({"mode": "one", "order": "rev"}),
        gen_schedule(t, early_ok),
        gen_schedule(t, early_ok),
    ];
    json!({"kind": "graph", "entry": paths[0], "mods": model.mods, "sources": sources, "schedules": schedules})
}

// ---------------------------------------------------------------------------------------------
// property
// ---------------------------------------------------------------------------------------------
fn first_diff(a: &str, b: &str) -> String {
    let pa: Vec<&str> = a.split('|').collect();
    let pb: Vec<&str> = b.split('|').collect();
    for i in 0..pa.len().max(pb.len()) {
        let (x, y) = (pa.get(i).copied().unwrap_or("<missing>"), pb.get(i).copied().unwrap_or("<missing>"));
        if x != y {
            return format!("part {}: observed {:?}, expected {:?}", i, x, y);
        }
    }
    "equal".into()
}

/// signature class of a value mismatch: the alphabetic prefix of the first differing label
/// (r = read, t = typeof, g/p = getter/live read before inc, i = inc result, L = live read after inc)
fn diff_class(a: &str, b: &str) -> String {
    let pa: Vec<&str> = a.split('|').collect();
    let pb: Vec<&str> = b.split('|').collect();
    for i in 0..pa.len().max(pb.len()) {
        let (x, y) = (pa.get(i).copied().unwrap_or(""), pb.get(i).copied().unwrap_or(""));
        if x != y {
            let l: String = y.chars().take_while(|c| c.is_ascii_alphabetic()).collect();
            return match l.as_str() {
                "L" => "live-read-after-inc".into(),
                "p" => "live-read-before-inc".into(),
                "i" => "inc".into(),
                "loads" => "load-count".into(),
                "t" => "typeof".into(),
                _ => "read".into(),
            };
        }
    }
    "none".into()
}

impl Property for C09Prop {
    fn id(&self) -> &'static str {
        "C09"
    }
    fn rule(&self) -> String {
        "Each case is a random acyclic module graph (2..=6 modules quick, 2..=8 thorough; edges low->high index, every module reachable) placed in directories {/, /app, /app/lib, /app/lib/deep, /p, /p/q}; per edge 1-2 declarations drawn from named / default / namespace / side-effect imports and `export {x as y} from`, `export * from`, `export * as ns from`, each with one of 8 equivalent spellings of the target path (canonical, zz/../, //, ./, ../<dir>/, absolute, /zz/.. absolute, inner ./yy/../); every body logs `load:<path>`, bumps globalThis.__loads and computes number/string exports in closed form from its imports; modules may export a live counter (`export let n; export function inc()`) and getter functions reading imported bindings lazily; the entry module reads bindings directly, through namespaces (also nested) and re-exports before and after calling inc(). Every case is run under 4 host schedules on fresh interpreters: (all, request order), (one-at-a-time, reversed), and two tape-drawn (all|one|some x req|rev|perm x duplicate re-supply of an already supplied, possibly already loaded, path). Early supply of not-yet-requested modules is NOT generated (provide_module is documented only 'for a pending import'). Non-trivial (counted distinct by case hash): >= 3 modules, a diamond (a module with >= 2 importers) or a re-export declaration, and at least one schedule whose supply sequence differed from the request list.".into()
    }
    fn assumptions(&self) -> Vec<String> {
        vec![
            "graph model in harness/src/props/c09.rs (export tables with alias chains, closed-form values, sequential evaluation of the entry script) written from the ES module semantics named in the property, not from tsrun".into(),
            "reference path resolver (join to importer directory, stack-normalise, clamp at root), same algorithm as the C18 reference".into(),
            "the import relation used by the structural oracle is scanned from the source texts (`from \"…\"` / `import \"…\"`, one declaration per line)".into(),
            "console.log order (captured by the harness ConsoleProvider) is the load log; globalThis is shared between modules".into(),
        ]
    }
    fn plan(&self, tier: Tier) -> Plan {
        Plan { shards: 16, cases_per_shard: tier.pick(5000, 50_000), tape_len: 640, watchdog_s: tier.pick(900, 7200) }
    }
    fn generate(&self, tape: &mut Tape, ctx: &Ctx) -> Value {
        gen_case(tape, ctx.tier.pick(6, 8))
    }
    fn execute(&self, case: &Value, _ctx: &mut Ctx) -> Exec {
        let g = match Graph::from_case(case) {
            Ok(g) => g,
            Err(e) => return Exec::discard(format!("malformed-case: {}", e)),
        };
        let scheds: Vec<Value> = case["schedules"].as_array().cloned().unwrap_or_default();
        if scheds.is_empty() {
            return Exec::discard("malformed-case: no schedules");
        }
        // --- model (structured cases only) ---
        let mut tags: Vec<String> = Vec::new();
        let mut expected: Option<(String, BTreeMap<String, String>)> = None;
        let mut has_reexport = false;
        if case["kind"].as_str() == Some("graph") {
            let mods = case["mods"].as_array().cloned().unwrap_or_default();
            let mut model = Model::new(mods.len());
            model.mods = mods;
            for (i, m) in model.mods.iter().enumerate() {
                let path = m["path"].as_str().unwrap_or("");
                if m["i"].as_u64() != Some(i as u64) || g.sources.get(path).map(|s| s.as_str()) != Some(render_module(m).as_str()) {
                    return Exec::discard("malformed-case: sources do not match the structured description");
                }
                for d in m["decls"].as_array().map(|a| a.as_slice()).unwrap_or(&[]) {
                    let to = d["to"].as_u64().unwrap_or(0) as usize;
                    let want = model.mods.get(to).and_then(|x| x["path"].as_str());
                    if ref_resolve(d["spec"].as_str().unwrap_or(""), path).as_deref() != want || want.is_none() {
                        return Exec::discard("malformed-case: specifier does not name its target");
                    }
                    let k = d["k"].as_str().unwrap_or("").to_string();
                    if k == "re" || k == "star" || k == "starns" {
                        has_reexport = true;
                    }
                    tags.push(format!("decl:{}", k));
                }
                if !m["counter"].is_null() {
                    tags.push("live-counter".into());
                }
            }
            for i in (0..model.mods.len()).rev() {
                if let Err(e) = model.load(i) {
                    return Exec::discard(format!("malformed-case: model cannot evaluate m{}: {}", i, e));
                }
            }
            let parts = match model.run_script(g.reachable.len()) {
                Ok(p) => p,
                Err(e) => return Exec::discard(format!("malformed-case: model cannot evaluate the entry script: {}", e)),
            };
            // which channels carry the live reads made after inc()
            for op in model.mods[0]["script"].as_array().map(|a| a.as_slice()).unwrap_or(&[]) {
                if !op["l"].as_str().unwrap_or("").starts_with('L') {
                    continue;
                }
                if let Ok(r) = ref_from(&op["ref"]) {
                    let via_re = matches!(model.tables.get(r.m).and_then(|t| t.get(&r.p[0])), Some(Ex::Alias(..)));
                    let getter = op["op"].as_str() == Some("get");
                    let ch = match (getter, r.p.len() > 1, r.js.contains('.'), via_re) {
                        (true, _, _, _) => "getter-function",
                        (_, true, _, _) => "nested-namespace",
                        (_, _, true, true) => "namespace-of-reexporter",
                        (_, _, true, false) => "namespace",
                        (_, _, false, true) => "reexport",
                        _ => if r.m == 0 { "own-binding" } else { "direct-import" },
                    };
                    tags.push(format!("live-after-inc:{}", ch));
                }
            }
            let value = parts.join("|");
            let mut exports = match model.expected_exports() {
                Ok(e) => e,
                Err(e) => return Exec::discard(format!("malformed-case: {}", e)),
            };
            exports.insert("result".into(), format!("str:{}", value));
            expected = Some((value, exports));
        } else {
            // hand-written pins: optional expected completion string / exports instead of a structured model
            if let Some(v) = case["expect_value"].as_str() {
                let mut exports = BTreeMap::new();
                for (k, x) in case["expect_exports"].as_object().cloned().unwrap_or_default() {
                    exports.insert(k, x.as_str().unwrap_or("").to_string());
                }
                expected = Some((v.to_string(), exports));
            }
            has_reexport = g.sources.values().any(|s| s.lines().any(|l| l.trim_start().starts_with("export ") && l.contains(" from ")));
        }
        tags.sort();
        tags.dedup();
        // --- shape facts for the non-trivial rule and the histogram ---
        let mut importers: BTreeMap<&String, usize> = BTreeMap::new();
        for p in &g.reachable {
            for t in g.targets(p) {
                *importers.entry(t).or_insert(0) += 1;
            }
        }
        let diamond = importers.values().any(|n| *n >= 2);
        if diamond {
            tags.push("diamond".into());
        }
        if g.reachable.iter().any(|p| p.rfind('/') == Some(0) && !g.imports[p].is_empty()) {
            tags.push("importer-under-root".into());
        }
        if g.reachable.iter().any(|p| g.imports[p].iter().any(|(s, _)| s.contains("//") || s.contains("/./") || s.contains("/../") || s.starts_with('/'))) {
            tags.push("alias-spelling".into());
        }
        for p in &g.reachable {
            let mut by_target: BTreeMap<&String, BTreeSet<&String>> = BTreeMap::new();
            for (s, t) in &g.imports[p] {
                by_target.entry(t).or_default().insert(s);
            }
            if by_target.values().any(|s| s.len() >= 2) {
                tags.push("two-spellings-in-one-module".into());
                break;
            }
        }
        tags.push(format!("modules:{}", g.reachable.len()));

        // --- run every schedule on a fresh interpreter ---
        let mut runs: Vec<RunObs> = Vec::new();
        for s in &scheds {
            let mut o = run_schedule(&g, s);
            judge_run(&g, &mut o);
            runs.push(o);
        }
        let observed = json!({"expected": expected.as_ref().map(|(v, e)| json!({"value": v, "exports": e})),
                              "runs": runs.iter().map(|r| r.to_json()).collect::<Vec<_>>()});
        let total_rounds: u64 = runs.iter().map(|r| r.rounds.len() as u64).sum();
        let deviated = runs.iter().filter(|r| r.deviated).count() as u64;
        let finish = |e: Exec| e.with_observed(observed.clone()).with_tags(tags.clone()).count("schedules_run", runs.len() as u64).count("needimports_rounds", total_rounds).count("schedules_deviating_from_request_order", deviated);
        for (i, r) in runs.iter().enumerate() {
            if let Some((sig, msg)) = r.problems.first() {
                return finish(Exec::fail(sig.clone(), format!("schedule #{} {}: {}", i, scheds[i], msg)));
            }
        }
        // --- same result and exports whatever the schedule ---
        for (i, r) in runs.iter().enumerate().skip(1) {
            if r.end != runs[0].end {
                return finish(Exec::fail("c09:schedule-dependent-value", format!("completion value differs between schedule #0 and #{} {}: {}", i, scheds[i], first_diff(&r.end, &runs[0].end))));
            }
            if r.exports != runs[0].exports {
                return finish(Exec::fail("c09:schedule-dependent-exports", format!("exports differ between schedule #0 and #{} {}: {:?} vs {:?}", i, scheds[i], r.exports, runs[0].exports)));
            }
        }
        // --- and equal to the model ---
        if let Some((value, exports)) = &expected {
            let want = format!("complete:str:{}", value);
            if runs[0].end != want {
                return finish(Exec::fail(format!("c09:model-value:{}", diff_class(&runs[0].end, &want)), format!("completion value differs from the graph model: {}", first_diff(&runs[0].end, &want))));
            }
            if &runs[0].exports != exports && !(case["kind"].as_str() != Some("graph") && case["expect_exports"].is_null()) {
                let mut d = Vec::new();
                for k in runs[0].exports.keys().chain(exports.keys()).collect::<BTreeSet<_>>() {
                    if runs[0].exports.get(k) != exports.get(k) {
                        d.push(format!("{}: observed {:?}, expected {:?}", k, runs[0].exports.get(k), exports.get(k)));
                    }
                }
                return finish(Exec::fail("c09:model-exports", format!("entry exports differ from the graph model: {}", d.join("; "))));
            }
        }
        let nontrivial = g.reachable.len() >= 3 && (diamond || has_reexport) && deviated > 0 && runs.len() >= 3;
        finish(Exec::pass(nontrivial))
    }
}
