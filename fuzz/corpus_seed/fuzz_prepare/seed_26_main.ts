// Generator Functions Demo
// Demonstrates: function*, yield, yield*, for...of, lazy evaluation
import { range, rangeInclusive, countdown, take, skip } from "./range";
import { fibonacci, fibonacciUpto, fibonacciN, lucas, tribonacci } from "./fibonacci";
import { createNode, preorder, postorder, levelOrder, leaves, flatten } from "./tree";

// Helper to collect generator values into array
function collect<T>(gen: Generator<T>): T[] {
  const result: T[] = [];
  for (const value of gen) {
    result.push(value);
  }
  return result;
}

// Demo 1: Basic range generator
function rangeDemo(): { basic: number[]; stepped: number[]; inclusive: number[] } {
  return {
    basic: collect(range(0, 5)),           // [0, 1, 2, 3, 4]
    stepped: collect(range(0, 10, 2)),     // [0, 2, 4, 6, 8]
    inclusive: collect(rangeInclusive(1, 5)), // [1, 2, 3, 4, 5]
  };
}

// Demo 2: Countdown generator
function countdownDemo(): number[] {
  return collect(countdown(5)); // [5, 4, 3, 2, 1]
}

// Demo 3: Take and skip combinators
function takeSkipDemo(): { taken: number[]; skipped: number[]; combined: number[] } {
  return {
    taken: collect(take(range(0, 100), 5)),     // [0, 1, 2, 3, 4]
    skipped: collect(skip(range(0, 10), 5)),    // [5, 6, 7, 8, 9]
    combined: collect(take(skip(range(0, 100), 10), 5)), // [10, 11, 12, 13, 14]
  };
}

// Demo 4: Fibonacci sequences
function fibonacciDemo(): { first10: number[]; upTo100: number[]; lucas5: number[]; tribonacci8: number[] } {
  return {
    first10: collect(fibonacciN(10)),           // [0, 1, 1, 2, 3, 5, 8, 13, 21, 34]
    upTo100: collect(fibonacciUpto(100)),       // [0, 1, 1, 2, 3, 5, 8, 13, 21, 34, 55, 89]
    lucas5: collect(take(lucas(), 5)),          // [2, 1, 3, 4, 7]
    tribonacci8: collect(take(tribonacci(), 8)), // [0, 0, 1, 1, 2, 4, 7, 13]
  };
}

// Demo 5: Infinite generator with take
function infiniteDemo(): number[] {
  // Take first 15 fibonacci numbers from infinite generator
  return collect(take(fibonacci(), 15));
}

// Demo 6: Tree traversal
function treeDemo(): { preorder: number[]; postorder: number[]; levelOrder: number[]; leaves: number[] } {
  // Build a tree:
  //        1
  //       /|\
  //      2 3 4
  //     /|   |
  //    5 6   7
  const tree = createNode(1, [
    createNode(2, [
      createNode(5),
      createNode(6),
    ]),
    createNode(3),
    createNode(4, [
      createNode(7),
    ]),
  ]);

  return {
    preorder: collect(preorder(tree)),    // [1, 2, 5, 6, 3, 4, 7]
    postorder: collect(postorder(tree)),  // [5, 6, 2, 3, 7, 4, 1]
    levelOrder: collect(levelOrder(tree)), // [1, 2, 3, 4, 5, 6, 7]
    leaves: collect(leaves(tree)),         // [5, 6, 3, 7]
  };
}

// Demo 7: Flatten nested arrays
function flattenDemo(): { simple: number[]; deep: number[] } {
  return {
    simple: collect(flatten([1, [2, 3], 4, [5, 6]])),
    deep: collect(flatten([1, [2, [3, [4, 5]]]])),
  };
}

// Demo 8: Generator composition with yield*
function* composedGenerator(): Generator<string> {
  yield "start";
  yield* ["a", "b", "c"];
  yield "middle";
  yield* ["x", "y", "z"];
  yield "end";
}

function compositionDemo(): string[] {
  return collect(composedGenerator());
}

// Demo 9: Generator with early termination
function* generateUntil(max: number): Generator<number> {
  let n = 0;
  while (true) {
    if (n > max) return;
    yield n;
    n++;
  }
}

function earlyTerminationDemo(): number[] {
  return collect(generateUntil(5)); // [0, 1, 2, 3, 4, 5]
}

// Demo 10: Generator state machine
function* stateMachine(): Generator<string> {
  yield "idle";
  yield "loading";
  yield "processing";
  yield "complete";
}

function stateMachineDemo(): string[] {
  return collect(stateMachine());
}

// Run all demos
function runAllDemos(): {
  range: { basic: number[]; stepped: number[]; inclusive: number[] };
  countdown: number[];
  takeSkip: { taken: number[]; skipped: number[]; combined: number[] };
  fibonacci: { first10: number[]; upTo100: number[]; lucas5: number[]; tribonacci8: number[] };
  infinite: number[];
  tree: { preorder: number[]; postorder: number[]; levelOrder: number[]; leaves: number[] };
  flatten: { simple: number[]; deep: number[] };
  composition: string[];
  earlyTermination: number[];
  stateMachine: string[];
} {
  return {
    range: rangeDemo(),
    countdown: countdownDemo(),
    takeSkip: takeSkipDemo(),
    fibonacci: fibonacciDemo(),
    infinite: infiniteDemo(),
    tree: treeDemo(),
    flatten: flattenDemo(),
    composition: compositionDemo(),
    earlyTermination: earlyTerminationDemo(),
    stateMachine: stateMachineDemo(),
  };
}

const results = runAllDemos();
JSON.stringify(results, null, 2);
