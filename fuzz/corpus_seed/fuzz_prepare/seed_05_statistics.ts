// Statistical functions
// Demonstrates: Math functions, array methods, reduce

// Calculate mean (average)
export function mean(arr: number[]): number {
  if (arr.length === 0) return 0;
  return arr.reduce((sum, val) => sum + val, 0) / arr.length;
}

// Calculate median
export function median(arr: number[]): number {
  if (arr.length === 0) return 0;

  const sorted = [...arr].sort((a, b) => a - b);
  const mid = Math.floor(sorted.length / 2);

  if (sorted.length % 2 === 0) {
    return (sorted[mid - 1] + sorted[mid]) / 2;
  }

  return sorted[mid];
}

// Calculate mode (most frequent value)
export function mode(arr: number[]): number[] {
  if (arr.length === 0) return [];

  const frequency: { [key: number]: number } = {};
  let maxFreq = 0;

  for (const val of arr) {
    frequency[val] = (frequency[val] || 0) + 1;
    if (frequency[val] > maxFreq) {
      maxFreq = frequency[val];
    }
  }

  const modes: number[] = [];
  for (const key in frequency) {
    if (frequency[key] === maxFreq) {
      modes.push(Number(key));
    }
  }

  return modes;
}

// Calculate variance
export function variance(arr: number[]): number {
  if (arr.length === 0) return 0;

  const avg = mean(arr);
  const squaredDiffs = arr.map((val) => Math.pow(val - avg, 2));
  return mean(squaredDiffs);
}

// Calculate standard deviation
export function standardDeviation(arr: number[]): number {
  return Math.sqrt(variance(arr));
}

// Calculate range
export function range(arr: number[]): number {
  if (arr.length === 0) return 0;
  return Math.max(...arr) - Math.min(...arr);
}

// Calculate sum
export function sum(arr: number[]): number {
  return arr.reduce((acc, val) => acc + val, 0);
}

// Calculate product
export function product(arr: number[]): number {
  return arr.reduce((acc, val) => acc * val, 1);
}

// Percentile calculation
export function percentile(arr: number[], p: number): number {
  if (arr.length === 0) return 0;
  if (p < 0 || p > 100) return 0;

  const sorted = [...arr].sort((a, b) => a - b);
  const index = (p / 100) * (sorted.length - 1);
  const lower = Math.floor(index);
  const upper = Math.ceil(index);

  if (lower === upper) {
    return sorted[lower];
  }

  const fraction = index - lower;
  return sorted[lower] * (1 - fraction) + sorted[upper] * fraction;
}
