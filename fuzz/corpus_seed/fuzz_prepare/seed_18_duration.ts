// Duration calculation utilities

export interface Duration {
    days: number;
    hours: number;
    minutes: number;
    seconds: number;
}

const SECONDS_PER_MINUTE: number = 60;
const SECONDS_PER_HOUR: number = 3600;
const SECONDS_PER_DAY: number = 86400;

export function durationToSeconds(duration: Duration): number {
    return duration.days * SECONDS_PER_DAY +
           duration.hours * SECONDS_PER_HOUR +
           duration.minutes * SECONDS_PER_MINUTE +
           duration.seconds;
}

export function secondsToDuration(totalSeconds: number): Duration {
    const negative: boolean = totalSeconds < 0;
    let remaining: number = Math.abs(totalSeconds);

    const days: number = Math.floor(remaining / SECONDS_PER_DAY);
    remaining = remaining % SECONDS_PER_DAY;

    const hours: number = Math.floor(remaining / SECONDS_PER_HOUR);
    remaining = remaining % SECONDS_PER_HOUR;

    const minutes: number = Math.floor(remaining / SECONDS_PER_MINUTE);
    const seconds: number = Math.floor(remaining % SECONDS_PER_MINUTE);

    if (negative) {
        return { days: -days, hours: -hours, minutes: -minutes, seconds: -seconds };
    }

    return { days, hours, minutes, seconds };
}

export function addDuration(a: Duration, b: Duration): Duration {
    const totalSeconds: number = durationToSeconds(a) + durationToSeconds(b);
    return secondsToDuration(totalSeconds);
}

export function subtractDuration(a: Duration, b: Duration): Duration {
    const totalSeconds: number = durationToSeconds(a) - durationToSeconds(b);
    return secondsToDuration(totalSeconds);
}

export function formatDuration(duration: Duration): string {
    const parts: string[] = [];

    if (duration.days !== 0) {
        parts.push(duration.days + "d");
    }
    if (duration.hours !== 0) {
        parts.push(duration.hours + "h");
    }
    if (duration.minutes !== 0) {
        parts.push(duration.minutes + "m");
    }
    if (duration.seconds !== 0 || parts.length === 0) {
        parts.push(duration.seconds + "s");
    }

    return parts.join(" ");
}

export function parseDuration(str: string): Duration {
    const duration: Duration = { days: 0, hours: 0, minutes: 0, seconds: 0 };

    // Match patterns like "5d", "3h", "30m", "45s"
    const dayMatch: RegExpMatchArray | null = str.match(/(\d+)d/);
    const hourMatch: RegExpMatchArray | null = str.match(/(\d+)h/);
    const minuteMatch: RegExpMatchArray | null = str.match(/(\d+)m/);
    const secondMatch: RegExpMatchArray | null = str.match(/(\d+)s/);

    if (dayMatch) {
        duration.days = parseInt(dayMatch[1], 10);
    }
    if (hourMatch) {
        duration.hours = parseInt(hourMatch[1], 10);
    }
    if (minuteMatch) {
        duration.minutes = parseInt(minuteMatch[1], 10);
    }
    if (secondMatch) {
        duration.seconds = parseInt(secondMatch[1], 10);
    }

    return duration;
}

export function multiplyDuration(duration: Duration, factor: number): Duration {
    const totalSeconds: number = durationToSeconds(duration) * factor;
    return secondsToDuration(Math.floor(totalSeconds));
}

export function compareDuration(a: Duration, b: Duration): number {
    return durationToSeconds(a) - durationToSeconds(b);
}

export function isZeroDuration(duration: Duration): boolean {
    return duration.days === 0 &&
           duration.hours === 0 &&
           duration.minutes === 0 &&
           duration.seconds === 0;
}

export function normalizeDuration(duration: Duration): Duration {
    // Normalize by converting to seconds and back
    return secondsToDuration(durationToSeconds(duration));
}
