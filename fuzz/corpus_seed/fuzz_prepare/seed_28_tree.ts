// Tree traversal generators
// Demonstrates: yield*, recursive generators, custom iterables

/**
 * Tree node interface
 */
interface TreeNode<T> {
  value: T;
  children: TreeNode<T>[];
}

/**
 * Create a tree node
 */
export function createNode<T>(value: T, children: TreeNode<T>[] = []): TreeNode<T> {
  return { value, children };
}

/**
 * Pre-order traversal (parent before children)
 */
export function* preorder<T>(node: TreeNode<T>): Generator<T> {
  yield node.value;
  for (const child of node.children) {
    yield* preorder(child);
  }
}

/**
 * Post-order traversal (children before parent)
 */
export function* postorder<T>(node: TreeNode<T>): Generator<T> {
  for (const child of node.children) {
    yield* postorder(child);
  }
  yield node.value;
}

/**
 * Level-order traversal (breadth-first)
 */
export function* levelOrder<T>(root: TreeNode<T>): Generator<T> {
  const queue: TreeNode<T>[] = [root];
  while (queue.length > 0) {
    const node = queue.shift();
    if (node) {
      yield node.value;
      for (const child of node.children) {
        queue.push(child);
      }
    }
  }
}

/**
 * Get all leaf nodes (nodes with no children)
 */
export function* leaves<T>(node: TreeNode<T>): Generator<T> {
  if (node.children.length === 0) {
    yield node.value;
  } else {
    for (const child of node.children) {
      yield* leaves(child);
    }
  }
}

/**
 * Flatten a nested array using generator
 */
export function* flatten<T>(arr: (T | T[])[]): Generator<T> {
  for (const item of arr) {
    if (Array.isArray(item)) {
      yield* flatten(item as (T | T[])[]);
    } else {
      yield item;
    }
  }
}
