// Validation functions that throw errors

export class ValidationError extends Error {
    field: string;
    constraint: string;

    constructor(field: string, constraint: string, message: string) {
        super(message);
        this.name = "ValidationError";
        this.field = field;
        this.constraint = constraint;
    }
}

export function validateRequired(value: any, fieldName: string): void {
    if (value === undefined || value === null || value === "") {
        throw new ValidationError(fieldName, "required", fieldName + " is required");
    }
}

export function validateString(value: any, fieldName: string): void {
    if (typeof value !== "string") {
        throw new TypeError(fieldName + " must be a string, got " + typeof value);
    }
}

export function validateNumber(value: any, fieldName: string): void {
    if (typeof value !== "number" || Number.isNaN(value)) {
        throw new TypeError(fieldName + " must be a valid number");
    }
}

export function validateMinLength(value: string, minLength: number, fieldName: string): void {
    if (value.length < minLength) {
        throw new ValidationError(
            fieldName,
            "minLength",
            fieldName + " must be at least " + minLength + " characters"
        );
    }
}

export function validateMaxLength(value: string, maxLength: number, fieldName: string): void {
    if (value.length > maxLength) {
        throw new ValidationError(
            fieldName,
            "maxLength",
            fieldName + " must be at most " + maxLength + " characters"
        );
    }
}

export function validateRange(value: number, min: number, max: number, fieldName: string): void {
    if (value < min || value > max) {
        throw new RangeError(fieldName + " must be between " + min + " and " + max);
    }
}

export function validatePositive(value: number, fieldName: string): void {
    if (value <= 0) {
        throw new RangeError(fieldName + " must be positive");
    }
}

export function validateEmail(email: string): void {
    // Simple email validation
    if (!email.includes("@") || !email.includes(".")) {
        throw new ValidationError("email", "format", "Invalid email format");
    }
}

export function validateUrl(url: string): void {
    if (!url.startsWith("http://") && !url.startsWith("https://")) {
        throw new ValidationError("url", "format", "URL must start with http:// or https://");
    }
}

// Compound validator that collects all errors
export interface ValidationResult {
    valid: boolean;
    errors: string[];
}

export function validateObject(
    obj: any,
    rules: { field: string; validators: ((value: any) => void)[] }[]
): ValidationResult {
    const errors: string[] = [];

    for (const rule of rules) {
        const value = obj[rule.field];
        for (const validator of rule.validators) {
            try {
                validator(value);
            } catch (e) {
                if (e instanceof Error) {
                    errors.push(e.message);
                }
            }
        }
    }

    return {
        valid: errors.length === 0,
        errors: errors
    };
}
