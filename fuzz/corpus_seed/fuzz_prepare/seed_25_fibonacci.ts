// Fibonacci sequence generators
// Demonstrates: infinite generators, lazy evaluation

/**
 * Infinite Fibonacci sequence generator
 */
export function* fibonacci(): Generator<number> {
  let a = 0;
  let b = 1;
  while (true) {
    yield a;
    const temp = a;
    a = b;
    b = temp + b;
  }
}

/**
 * Fibonacci sequence up to a maximum value
 */
export function* fibonacciUpto(max: number): Generator<number> {
  let a = 0;
  let b = 1;
  while (a <= max) {
    yield a;
    const temp = a;
    a = b;
    b = temp + b;
  }
}

/**
 * First n Fibonacci numbers
 */
export function* fibonacciN(n: number): Generator<number> {
  let a = 0;
  let b = 1;
  for (let i = 0; i < n; i++) {
    yield a;
    const temp = a;
    a = b;
    b = temp + b;
  }
}

/**
 * Lucas numbers (similar to Fibonacci, starts with 2, 1)
 */
export function* lucas(): Generator<number> {
  let a = 2;
  let b = 1;
  while (true) {
    yield a;
    const temp = a;
    a = b;
    b = temp + b;
  }
}

/**
 * Tribonacci sequence (sum of last 3 numbers)
 */
export function* tribonacci(): Generator<number> {
  let a = 0;
  let b = 0;
  let c = 1;
  while (true) {
    yield a;
    const next = a + b + c;
    a = b;
    b = c;
    c = next;
  }
}
