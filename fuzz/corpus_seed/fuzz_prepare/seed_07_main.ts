// Async/Await Demo - Finding the bug
import {
  fetchUser,
  fetchAllUsers,
  fetchUserPosts,
  fetchPostComments,
  fetchUsersById,
  fetchUserWithPosts,
} from "./fetcher";
import {
  safeProcess,
  asyncMap,
  calculateStats,
  pipeline,
  processAllSettled,
} from "./processor";

// Demo 1: Basic
async function basicAsyncDemo(): Promise<{ name: string; postCount: number }> {
  const user = await fetchUser(1);
  const posts = await fetchUserPosts(1);
  return { name: user ? user.name : "Unknown", postCount: posts.length };
}

// Demo 2: Parallel
async function parallelDemo(): Promise<{ totalFetched: number }> {
  const users = await fetchUsersById([1, 2, 3]);
  return { totalFetched: users.filter((u) => u !== null).length };
}

// Demo 3: Sequential
async function sequentialFetch(): Promise<{ user1Posts: number; user2Posts: number }> {
  const user1Posts = await fetchUserPosts(1);
  const user2Posts = await fetchUserPosts(2);
  return { user1Posts: user1Posts.length, user2Posts: user2Posts.length };
}

// Demo 4: Parallel Fetch - TESTING THIS (Promise.all with destructuring)
async function parallelFetch(): Promise<{ user1Posts: number; user2Posts: number }> {
  const [user1Posts, user2Posts] = await Promise.all([
    fetchUserPosts(1),
    fetchUserPosts(2),
  ]);
  return {
    user1Posts: user1Posts.length,
    user2Posts: user2Posts.length,
  };
}

// Demo 5: Pipeline
async function pipelineDemo(): Promise<string[]> {
  return pipeline(
    fetchUser(1),
    async (user) => {
      if (!user) return [];
      return fetchUserPosts(user.id);
    },
    async (posts) => posts.map((p) => p.title)
  );
}

// Demo 6: allSettled
async function allSettledDemo(): Promise<{ fulfilled: number; rejected: number }> {
  const { fulfilled, rejected } = await processAllSettled([1, 2, 99], async (id: number) => {
    const user = await fetchUser(id);
    if (!user) throw new Error("Not found");
    return user;
  });
  return { fulfilled: fulfilled.length, rejected: rejected.length };
}

// Demo 7: Async map
async function asyncMapDemo(): Promise<string[]> {
  return asyncMap([1, 2, 3], async (id) => {
    const user = await fetchUser(id);
    return user ? user.name : "Unknown";
  });
}

// Demo 8: Stats
async function statsDemo(): Promise<{ userCount: number }> {
  const stats = await calculateStats(fetchAllUsers, (user) => user.name);
  return { userCount: stats.count };
}

// Demo 9: Safe process
async function safeProcessDemo(): Promise<{ success1: boolean; success2: boolean }> {
  const result1 = await safeProcess([1, 2, 3], (arr: number[]) => arr.reduce((a, b) => a + b, 0));
  const result2 = await safeProcess(5, (n: number) => {
    if (n > 3) throw new Error("too big");
    return n;
  });
  return { success1: result1.success, success2: result2.success };
}

// Demo 10: Nested
async function nestedAsyncDemo(): Promise<{
  userName: string;
  postTitles: string[];
  commentCount: number;
}> {
  const { user, posts } = await fetchUserWithPosts(1);
  if (!user) {
    return { userName: "Unknown", postTitles: [], commentCount: 0 };
  }
  const allComments = await Promise.all(
    posts.map((post) => fetchPostComments(post.id))
  );
  return {
    userName: user.name,
    postTitles: posts.map((p) => p.title),
    commentCount: allComments.flat().length,
  };
}

// Demo 11: Error handling
async function errorHandlingDemo(): Promise<{ result: string; caught: boolean }> {
  let caught = false;
  try {
    const user = await fetchUser(1);
    if (!user) {
      throw new Error("User not found");
    }
    return { result: user.name, caught };
  } catch (e) {
    caught = true;
    return { result: "Error occurred", caught };
  }
}

// Run all
async function runAllDemos(): Promise<{
  basic: { name: string; postCount: number };
  parallel: { totalFetched: number };
  sequential: { user1Posts: number; user2Posts: number };
  parallelFetch: { user1Posts: number; user2Posts: number };
  pipeline: string[];
  allSettled: { fulfilled: number; rejected: number };
  asyncMap: string[];
  stats: { userCount: number };
  safeProcess: { success1: boolean; success2: boolean };
  nested: { userName: string; postTitles: string[]; commentCount: number };
  errorHandling: { result: string; caught: boolean };
}> {
  return {
    basic: await basicAsyncDemo(),
    parallel: await parallelDemo(),
    sequential: await sequentialFetch(),
    parallelFetch: await parallelFetch(),
    pipeline: await pipelineDemo(),
    allSettled: await allSettledDemo(),
    asyncMap: await asyncMapDemo(),
    stats: await statsDemo(),
    safeProcess: await safeProcessDemo(),
    nested: await nestedAsyncDemo(),
    errorHandling: await errorHandlingDemo(),
  };
}

const results = await runAllDemos();
JSON.stringify(results, null, 2);
