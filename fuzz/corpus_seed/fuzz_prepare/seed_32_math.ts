// Nested import - math.ts imports from constants.ts
import { PI, E } from "./constants";

export function add(a: number, b: number): number {
    return a + b;
}

export function multiply(a: number, b: number): number {
    return a * b;
}

export function circleArea(radius: number): number {
    return PI * radius * radius;
}

export { PI, E };
