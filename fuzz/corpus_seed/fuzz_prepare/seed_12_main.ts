// Config Generator Example
// Demonstrates: object literals, interfaces, spread operator, template literals, default values

import { AppConfig } from "./types";
import {
  DEFAULT_DATABASE_CONFIG,
  DEFAULT_SERVER_CONFIG,
  DEFAULT_LOGGING_CONFIG,
  DEFAULT_FEATURES,
} from "./defaults";

// Environment-specific overrides
const ENV = "production";

const envOverrides: Record<string, Partial<AppConfig>> = {
  development: {
    database: {
      ...DEFAULT_DATABASE_CONFIG,
      database: "app_dev",
    },
    logging: {
      ...DEFAULT_LOGGING_CONFIG,
      level: "debug",
      format: "text",
    },
  },
  staging: {
    database: {
      ...DEFAULT_DATABASE_CONFIG,
      host: "staging-db.example.com",
      database: "app_staging",
      ssl: true,
    },
    server: {
      ...DEFAULT_SERVER_CONFIG,
      cors: {
        enabled: true,
        origins: ["https://staging.example.com"],
      },
    },
  },
  production: {
    database: {
      ...DEFAULT_DATABASE_CONFIG,
      host: "prod-db.example.com",
      database: "app_prod",
      ssl: true,
      poolSize: 50,
    },
    server: {
      ...DEFAULT_SERVER_CONFIG,
      cors: {
        enabled: true,
        origins: ["https://example.com", "https://www.example.com"],
      },
      rateLimit: {
        enabled: true,
        maxRequests: 1000,
        windowMs: 60000,
      },
    },
    logging: {
      ...DEFAULT_LOGGING_CONFIG,
      level: "warn",
      outputs: ["stdout", "file"],
    },
    features: {
      ...DEFAULT_FEATURES,
      analytics: true,
    },
  },
};

// Build the final configuration
function buildConfig(env: string): AppConfig {
  const overrides = envOverrides[env] || {};

  return {
    name: "MyApp",
    version: "1.0.0",
    environment: env as "development" | "staging" | "production",
    database: {
      ...DEFAULT_DATABASE_CONFIG,
      ...(overrides.database || {}),
    },
    server: {
      ...DEFAULT_SERVER_CONFIG,
      ...(overrides.server || {}),
    },
    logging: {
      ...DEFAULT_LOGGING_CONFIG,
      ...(overrides.logging || {}),
    },
    features: {
      ...DEFAULT_FEATURES,
      ...(overrides.features || {}),
    },
  };
}

// Generate the configuration
const config = buildConfig(ENV);

// Output as JSON
JSON.stringify(config, null, 2);
