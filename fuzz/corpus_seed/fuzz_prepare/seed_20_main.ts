// Domain Model Example
// Demonstrates: classes, inheritance, private fields, getters/setters, static methods

import { Entity } from "./entity";
import { User } from "./user";
import { Order, OrderItem } from "./order";

// Create users
const admin = new User("Alice Admin", "alice@example.com", "admin");
const customer = new User("Bob Customer", "bob@example.com");

// Create an order with method chaining
const order1 = new Order(customer)
  .addItem("Laptop", 1, 999.99)
  .addItem("Mouse", 2, 29.99)
  .addItem("Keyboard", 1, 79.99);

// Transition order through states
order1.confirm();
order1.ship();

// Create another order
const order2 = new Order(customer).addItem("Monitor", 1, 449.99);
order2.confirm();

// Create an order for admin
const adminOrder = new Order(admin)
  .addItem("Server", 1, 2999.99)
  .addItem("Network Cable", 10, 15.99);
adminOrder.confirm();
adminOrder.ship();
adminOrder.deliver();

// Demonstrate cancelled order
const cancelledOrder = new Order(customer).addItem("Cancelled Item", 1, 100.0);
cancelledOrder.cancel();

// Build results object
const results = {
  entityCount: Entity.getEntityCount(),
  users: {
    admin: admin.toJSON(),
    customer: customer.toJSON(),
  },
  orders: {
    order1: order1.toJSON(),
    order2: order2.toJSON(),
    adminOrder: adminOrder.toJSON(),
    cancelledOrder: cancelledOrder.toJSON(),
  },
  summary: {
    adminIsAdmin: admin.isAdmin(),
    customerIsAdmin: customer.isAdmin(),
    order1Status: order1.status,
    order1Total: order1.total,
    order1ItemCount: order1.itemCount,
    order2Status: order2.status,
    adminOrderStatus: adminOrder.status,
    cancelledOrderStatus: cancelledOrder.status,
  },
};

JSON.stringify(results, null, 2);
