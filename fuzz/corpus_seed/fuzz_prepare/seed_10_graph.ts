// Graph implementation using Map<node, Set<neighbor>>

export interface Graph<T> {
    nodes: Map<T, Set<T>>;
}

export function createGraph<T>(): Graph<T> {
    return {
        nodes: new Map()
    };
}

export function addNode<T>(graph: Graph<T>, node: T): void {
    if (!graph.nodes.has(node)) {
        graph.nodes.set(node, new Set());
    }
}

export function addEdge<T>(graph: Graph<T>, from: T, to: T): void {
    addNode(graph, from);
    addNode(graph, to);
    graph.nodes.get(from)!.add(to);
}

export function addBidirectionalEdge<T>(graph: Graph<T>, a: T, b: T): void {
    addEdge(graph, a, b);
    addEdge(graph, b, a);
}

export function hasEdge<T>(graph: Graph<T>, from: T, to: T): boolean {
    const neighbors: Set<T> | undefined = graph.nodes.get(from);
    return neighbors !== undefined && neighbors.has(to);
}

export function getNeighbors<T>(graph: Graph<T>, node: T): Set<T> {
    return graph.nodes.get(node) || new Set();
}

export function removeEdge<T>(graph: Graph<T>, from: T, to: T): void {
    const neighbors: Set<T> | undefined = graph.nodes.get(from);
    if (neighbors) {
        neighbors.delete(to);
    }
}

export function removeNode<T>(graph: Graph<T>, node: T): void {
    graph.nodes.delete(node);
    // Remove all edges pointing to this node
    graph.nodes.forEach((neighbors) => {
        neighbors.delete(node);
    });
}

// Breadth-First Search
export function bfs<T>(graph: Graph<T>, start: T): T[] {
    const visited: Set<T> = new Set();
    const result: T[] = [];
    const queue: T[] = [start];

    while (queue.length > 0) {
        const current: T = queue.shift()!;

        if (visited.has(current)) {
            continue;
        }

        visited.add(current);
        result.push(current);

        const neighbors: Set<T> = getNeighbors(graph, current);
        for (const neighbor of neighbors) {
            if (!visited.has(neighbor)) {
                queue.push(neighbor);
            }
        }
    }

    return result;
}

// Depth-First Search
export function dfs<T>(graph: Graph<T>, start: T): T[] {
    const visited: Set<T> = new Set();
    const result: T[] = [];

    function visit(node: T): void {
        if (visited.has(node)) {
            return;
        }

        visited.add(node);
        result.push(node);

        const neighbors: Set<T> = getNeighbors(graph, node);
        for (const neighbor of neighbors) {
            visit(neighbor);
        }
    }

    visit(start);
    return result;
}

// Find path between two nodes
export function findPath<T>(graph: Graph<T>, start: T, end: T): T[] | null {
    const visited: Set<T> = new Set();
    const parent: Map<T, T> = new Map();
    const queue: T[] = [start];

    visited.add(start);

    while (queue.length > 0) {
        const current: T = queue.shift()!;

        if (current === end) {
            // Reconstruct path
            const path: T[] = [];
            let node: T | undefined = end;
            while (node !== undefined) {
                path.unshift(node);
                node = parent.get(node);
            }
            return path;
        }

        const neighbors: Set<T> = getNeighbors(graph, current);
        for (const neighbor of neighbors) {
            if (!visited.has(neighbor)) {
                visited.add(neighbor);
                parent.set(neighbor, current);
                queue.push(neighbor);
            }
        }
    }

    return null;  // No path found
}

// Check if graph has a cycle (for directed graphs)
export function hasCycle<T>(graph: Graph<T>): boolean {
    const visited: Set<T> = new Set();
    const inStack: Set<T> = new Set();

    function dfsCheck(node: T): boolean {
        visited.add(node);
        inStack.add(node);

        const neighbors: Set<T> = getNeighbors(graph, node);
        for (const neighbor of neighbors) {
            if (!visited.has(neighbor)) {
                if (dfsCheck(neighbor)) {
                    return true;
                }
            } else if (inStack.has(neighbor)) {
                return true;  // Found cycle
            }
        }

        inStack.delete(node);
        return false;
    }

    for (const node of graph.nodes.keys()) {
        if (!visited.has(node)) {
            if (dfsCheck(node)) {
                return true;
            }
        }
    }

    return false;
}

// Build a sample graph
export function buildGraph(): Graph<string> {
    const graph: Graph<string> = createGraph();

    // Add edges to create:
    //     A
    //    / \
    //   B   C
    //  / \   \
    // D   E   F

    addEdge(graph, "A", "B");
    addEdge(graph, "A", "C");
    addEdge(graph, "B", "D");
    addEdge(graph, "B", "E");
    addEdge(graph, "C", "F");

    return graph;
}
