// Math/Algorithm Showcase - Simplified for debugging
// Demonstrates: Math object, Number methods, recursion, control flow

import { fibRecursive, fibIterative } from "./fibonacci";
import { isPrime, gcd, lcm } from "./primes";
import { mean, median, sum, variance, standardDeviation } from "./statistics";

// ═══════════════════════════════════════════════════════════════════════════
// Fibonacci Demonstrations
// ═══════════════════════════════════════════════════════════════════════════

const fibResults = {
  recursive: {
    fib10: fibRecursive(10),
    fib15: fibRecursive(15),
  },
  iterative: {
    fib10: fibIterative(10),
    fib50: fibIterative(50),
  },
};

// ═══════════════════════════════════════════════════════════════════════════
// Prime Number Demonstrations
// ═══════════════════════════════════════════════════════════════════════════

const primeResults = {
  primeChecks: {
    "2": isPrime(2),
    "17": isPrime(17),
    "100": isPrime(100),
    "97": isPrime(97),
  },
  gcdExamples: {
    "gcd(48,18)": gcd(48, 18),
    "gcd(100,25)": gcd(100, 25),
  },
  lcmExamples: {
    "lcm(4,6)": lcm(4, 6),
    "lcm(21,6)": lcm(21, 6),
  },
};

// ═══════════════════════════════════════════════════════════════════════════
// Statistics Demonstrations
// ═══════════════════════════════════════════════════════════════════════════

const sampleData = [12, 15, 18, 22, 22, 25, 28, 30, 35, 40];

const statsResults = {
  data: sampleData,
  sum: sum(sampleData),
  mean: mean(sampleData),
  median: median(sampleData),
  variance: Math.round(variance(sampleData) * 100) / 100,
  standardDeviation: Math.round(standardDeviation(sampleData) * 100) / 100,
};

// ═══════════════════════════════════════════════════════════════════════════
// Math Object Demonstrations
// ═══════════════════════════════════════════════════════════════════════════

const mathResults = {
  constants: {
    PI: Math.PI,
    E: Math.E,
    SQRT2: Math.SQRT2,
  },
  exponential: {
    "pow(2,10)": Math.pow(2, 10),
    "sqrt(144)": Math.sqrt(144),
    "cbrt(27)": Math.cbrt(27),
  },
  rounding: {
    "floor(3.7)": Math.floor(3.7),
    "ceil(3.2)": Math.ceil(3.2),
    "round(3.5)": Math.round(3.5),
  },
  comparison: {
    "min(5,3,9,1)": Math.min(5, 3, 9, 1),
    "max(5,3,9,1)": Math.max(5, 3, 9, 1),
    "abs(-42)": Math.abs(-42),
  },
};

// ═══════════════════════════════════════════════════════════════════════════
// Bitwise Operations
// ═══════════════════════════════════════════════════════════════════════════

const bitwiseResults = {
  and: 12 & 10,
  or: 12 | 10,
  xor: 12 ^ 10,
  leftShift: 5 << 2,
  rightShift: 20 >> 2,
};

// ═══════════════════════════════════════════════════════════════════════════
// Output Results
// ═══════════════════════════════════════════════════════════════════════════

const results = {
  fibonacci: fibResults,
  primes: primeResults,
  statistics: statsResults,
  math: mathResults,
  bitwise: bitwiseResults,
};

JSON.stringify(results, null, 2);
