// Base constants module
export const PI: number = 3.14159;
export const E: number = 2.71828;
export const GOLDEN_RATIO: number = 1.61803;
