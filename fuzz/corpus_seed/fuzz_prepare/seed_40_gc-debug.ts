// GC Debug Test
// Creates objects in batches to understand GC behavior
//
// This test helps verify that:
// 1. Objects are actually being allocated
// 2. Memory stays bounded between batches
// 3. Cycles are properly collected

console.log("=== GC Debug Test ===\n");

// Test in batches to observe memory behavior
const BATCHES: number = 10;
const OBJECTS_PER_BATCH: number = 1000;

console.log("Batches:", BATCHES);
console.log("Objects per batch:", OBJECTS_PER_BATCH);
console.log("Total objects:", BATCHES * OBJECTS_PER_BATCH);
console.log("");

for (let batch = 0; batch < BATCHES; batch++) {
    console.log("Starting batch", batch + 1);

    // Create many cyclic objects in this batch
    for (let i = 0; i < OBJECTS_PER_BATCH; i++) {
        // Create a small cycle
        const a: { id: number; ref: any } = { id: i, ref: null };
        const b: { id: number; ref: any } = { id: i + 1, ref: null };
        a.ref = b;
        b.ref = a;

        // Use them briefly
        const _ = a.id + b.id;

        // a, b go out of scope here - should be collectible
    }

    console.log("Batch", batch + 1, "complete");
}

console.log("\n=== Test Complete ===");
console.log("If GC is working, memory should be bounded.");
console.log("Run with: /usr/bin/time -v to check 'Maximum resident set size'");
