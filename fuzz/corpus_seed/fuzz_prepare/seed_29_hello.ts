// Minimal script for measuring startup time
console.log("hello");
