export function greet(name: string): string {
    return `Hello, ${name}!`;
}
