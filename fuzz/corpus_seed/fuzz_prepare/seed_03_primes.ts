// Prime number algorithms
// Demonstrates: loops, conditionals, Math functions, bitwise operations

// Check if a number is prime
export function isPrime(n: number): boolean {
  if (n < 2) return false;
  if (n === 2) return true;
  if (n % 2 === 0) return false;

  const sqrt = Math.floor(Math.sqrt(n));
  for (let i = 3; i <= sqrt; i += 2) {
    if (n % i === 0) return false;
  }

  return true;
}

// Sieve of Eratosthenes - find all primes up to n
export function sieveOfEratosthenes(n: number): number[] {
  if (n < 2) return [];

  // Use array of booleans
  const sieve: boolean[] = [];
  for (let i = 0; i <= n; i++) {
    sieve.push(true);
  }
  sieve[0] = false;
  sieve[1] = false;

  for (let i = 2; i * i <= n; i++) {
    if (sieve[i]) {
      for (let j = i * i; j <= n; j += i) {
        sieve[j] = false;
      }
    }
  }

  const primes: number[] = [];
  for (let i = 2; i <= n; i++) {
    if (sieve[i]) {
      primes.push(i);
    }
  }

  return primes;
}

// Get prime factors of a number
export function primeFactors(n: number): number[] {
  const factors: number[] = [];
  let num = n;

  // Handle 2 separately
  while (num % 2 === 0) {
    factors.push(2);
    num = num / 2;
  }

  // Check odd numbers
  for (let i = 3; i <= Math.sqrt(num); i += 2) {
    while (num % i === 0) {
      factors.push(i);
      num = num / i;
    }
  }

  // If num is a prime greater than 2
  if (num > 2) {
    factors.push(num);
  }

  return factors;
}

// Greatest Common Divisor using Euclidean algorithm
export function gcd(a: number, b: number): number {
  a = Math.abs(a);
  b = Math.abs(b);
  while (b !== 0) {
    const temp = b;
    b = a % b;
    a = temp;
  }
  return a;
}

// Least Common Multiple
export function lcm(a: number, b: number): number {
  return Math.abs(a * b) / gcd(a, b);
}
