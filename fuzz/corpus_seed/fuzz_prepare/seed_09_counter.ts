// Word frequency counter using Map and Set

export interface WordCounter {
    frequencies: Map<string, number>;
    uniqueWords: Set<string>;
    totalWords: number;
}

export function createWordCounter(): WordCounter {
    return {
        frequencies: new Map(),
        uniqueWords: new Set(),
        totalWords: 0
    };
}

export function addWord(counter: WordCounter, word: string): void {
    const normalized: string = word.toLowerCase();

    counter.totalWords++;
    counter.uniqueWords.add(normalized);

    const count: number = counter.frequencies.get(normalized) || 0;
    counter.frequencies.set(normalized, count + 1);
}

export function getCount(counter: WordCounter, word: string): number {
    return counter.frequencies.get(word.toLowerCase()) || 0;
}

export function getMostFrequent(counter: WordCounter, n: number): [string, number][] {
    const entries: [string, number][] = Array.from(counter.frequencies.entries());

    // Sort by frequency descending
    entries.sort((a, b) => b[1] - a[1]);

    // Return top n
    return entries.slice(0, n);
}

export function getLeastFrequent(counter: WordCounter, n: number): [string, number][] {
    const entries: [string, number][] = Array.from(counter.frequencies.entries());

    // Sort by frequency ascending
    entries.sort((a, b) => a[1] - b[1]);

    // Return bottom n
    return entries.slice(0, n);
}

export function analyzeText(text: string): WordCounter {
    const counter: WordCounter = createWordCounter();

    // Split on whitespace and punctuation
    const words: string[] = text.split(/[\s,.!?;:'"()\[\]{}]+/);

    for (const word of words) {
        if (word.length > 0) {
            addWord(counter, word);
        }
    }

    return counter;
}

export function mergeCounters(a: WordCounter, b: WordCounter): WordCounter {
    const result: WordCounter = createWordCounter();

    // Add all words from counter a
    a.frequencies.forEach((count, word) => {
        result.frequencies.set(word, count);
        result.uniqueWords.add(word);
    });

    // Add words from counter b
    b.frequencies.forEach((count, word) => {
        const existing: number = result.frequencies.get(word) || 0;
        result.frequencies.set(word, existing + count);
        result.uniqueWords.add(word);
    });

    result.totalWords = a.totalWords + b.totalWords;

    return result;
}

export function getWordsByFrequency(counter: WordCounter, frequency: number): Set<string> {
    const result: Set<string> = new Set();

    counter.frequencies.forEach((count, word) => {
        if (count === frequency) {
            result.add(word);
        }
    });

    return result;
}

export function getFrequencyDistribution(counter: WordCounter): Map<number, number> {
    const distribution: Map<number, number> = new Map();

    counter.frequencies.forEach((count) => {
        const existing: number = distribution.get(count) || 0;
        distribution.set(count, existing + 1);
    });

    return distribution;
}
