// Default configuration values

export const DEFAULT_DATABASE_CONFIG = {
  host: "localhost",
  port: 5432,
  database: "app_db",
  username: "app_user",
  ssl: false,
  poolSize: 10,
};

export const DEFAULT_SERVER_CONFIG = {
  host: "0.0.0.0",
  port: 3000,
  cors: {
    enabled: true,
    origins: ["http://localhost:3000"],
  },
  rateLimit: {
    enabled: true,
    maxRequests: 100,
    windowMs: 60000,
  },
};

export const DEFAULT_LOGGING_CONFIG = {
  level: "info",
  format: "json",
  outputs: ["stdout"],
};

export const DEFAULT_FEATURES = {
  darkMode: true,
  analytics: false,
  betaFeatures: false,
};
