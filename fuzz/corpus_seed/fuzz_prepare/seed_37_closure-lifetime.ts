// Closure Lifetime Test
// Closures keep their captured environment alive until they are no longer referenced

export interface ClosureResult {
    iterations: number;
    value: number;
}

export function testClosureLifetime(): ClosureResult {
    let value: number = 0;
    const iterations: number = 5000;

    for (let i = 0; i < iterations; i++) {
        // Create a closure that captures 'i'
        const capturedValue = i * 2;
        const fn = (): number => capturedValue + 1;

        // Use the closure
        value = value + fn();

        // fn goes out of scope here
        // The captured environment should be freed since no references remain
    }

    return { iterations, value };
}

// Test that closures properly extend lifetime when needed
export function testClosureExtension(): number {
    const closures: Array<() => number> = [];

    // Create closures in a loop
    for (let i = 0; i < 100; i++) {
        const captured = i;
        closures.push(() => captured * 2);
    }

    // All closures still exist, their captured environments should be alive
    let sum: number = 0;
    for (const fn of closures) {
        sum = sum + fn();
    }

    // closures array goes out of scope after return
    // All captured environments should then be freed
    return sum;
}

// Test nested closures
export function testNestedClosures(): number {
    let result: number = 0;

    for (let i = 0; i < 1000; i++) {
        const outer = i;

        const outerFn = (): (() => number) => {
            const inner = outer + 1;
            return (): number => inner * 2;
        };

        const innerFn = outerFn();
        result = result + innerFn();

        // innerFn, outerFn go out of scope
        // Captured environments for both should be freed
    }

    return result;
}

// Test closure over loop variable with let (each iteration gets its own binding)
export function testLoopClosures(): number {
    const fns: Array<() => number> = [];

    for (let i = 0; i < 10; i++) {
        // With 'let', each iteration has its own 'i'
        fns.push(() => i);
    }

    let sum: number = 0;
    for (const fn of fns) {
        sum = sum + fn();
    }

    // Should be 0+1+2+...+9 = 45
    return sum;
}

// Test that reassigning a closure variable frees the old closure
export function testClosureReassignment(): number {
    let fn: () => number = () => 0;
    let sum: number = 0;

    for (let i = 0; i < 1000; i++) {
        const captured = i;
        // Old closure should be freed when we reassign
        fn = () => captured;
        sum = sum + fn();
    }

    return sum;
}
