// Calendar generation utilities

interface CalendarDay {
    date: number;
    isCurrentMonth: boolean;
}

interface CalendarWeek {
    days: CalendarDay[];
}

interface Calendar {
    year: number;
    month: number;
    monthName: string;
    weeks: CalendarWeek[];
}

const MONTH_NAMES: string[] = [
    "January", "February", "March", "April", "May", "June",
    "July", "August", "September", "October", "November", "December"
];

const DAY_NAMES: string[] = [
    "Sun", "Mon", "Tue", "Wed", "Thu", "Fri", "Sat"
];

export function getMonthName(month: number): string {
    return MONTH_NAMES[month];
}

export function getDayName(day: number): string {
    return DAY_NAMES[day];
}

export function getDaysInMonth(year: number, month: number): number {
    // Create date for first day of next month, then go back one day
    return new Date(year, month + 1, 0).getDate();
}

export function getFirstDayOfMonth(year: number, month: number): number {
    return new Date(year, month, 1).getDay();
}

export function generateCalendar(year: number, month: number): Calendar {
    const daysInMonth: number = getDaysInMonth(year, month);
    const firstDay: number = getFirstDayOfMonth(year, month);

    // Get days in previous month for padding
    const prevMonth: number = month === 0 ? 11 : month - 1;
    const prevYear: number = month === 0 ? year - 1 : year;
    const daysInPrevMonth: number = getDaysInMonth(prevYear, prevMonth);

    const weeks: CalendarWeek[] = [];
    let currentWeek: CalendarDay[] = [];

    // Add days from previous month
    for (let i: number = 0; i < firstDay; i++) {
        const date: number = daysInPrevMonth - firstDay + i + 1;
        currentWeek.push({ date, isCurrentMonth: false });
    }

    // Add days from current month
    for (let date: number = 1; date <= daysInMonth; date++) {
        currentWeek.push({ date, isCurrentMonth: true });

        if (currentWeek.length === 7) {
            weeks.push({ days: currentWeek });
            currentWeek = [];
        }
    }

    // Add days from next month to complete the last week
    let nextDate: number = 1;
    while (currentWeek.length > 0 && currentWeek.length < 7) {
        currentWeek.push({ date: nextDate, isCurrentMonth: false });
        nextDate++;
    }

    if (currentWeek.length === 7) {
        weeks.push({ days: currentWeek });
    }

    return {
        year,
        month,
        monthName: getMonthName(month),
        weeks
    };
}

export function printCalendar(calendar: Calendar): void {
    console.log(`\n${calendar.monthName} ${calendar.year}`);
    console.log(DAY_NAMES.join(" "));

    for (const week of calendar.weeks) {
        const row: string = week.days
            .map(day => {
                const str: string = day.date < 10 ? " " + day.date : "" + day.date;
                return day.isCurrentMonth ? str : "  ";
            })
            .join("  ");
        console.log(row);
    }
}

export function getWeekNumber(date: Date): number {
    const firstDayOfYear: Date = new Date(date.getFullYear(), 0, 1);
    const pastDaysOfYear: number = (date.getTime() - firstDayOfYear.getTime()) / 86400000;
    return Math.ceil((pastDaysOfYear + firstDayOfYear.getDay() + 1) / 7);
}

export function isWeekend(date: Date): boolean {
    const day: number = date.getDay();
    return day === 0 || day === 6;
}

export function isWeekday(date: Date): boolean {
    return !isWeekend(date);
}

export function getQuarter(date: Date): number {
    return Math.floor(date.getMonth() / 3) + 1;
}
