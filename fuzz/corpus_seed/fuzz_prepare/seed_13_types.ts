// TypeScript interfaces for configuration
// These are parsed but stripped at runtime - serve as documentation

export interface DatabaseConfig {
  host: string;
  port: number;
  database: string;
  username: string;
  password?: string;
  ssl: boolean;
  poolSize: number;
}

export interface ServerConfig {
  host: string;
  port: number;
  cors: {
    enabled: boolean;
    origins: string[];
  };
  rateLimit: {
    enabled: boolean;
    maxRequests: number;
    windowMs: number;
  };
}

export interface LoggingConfig {
  level: "debug" | "info" | "warn" | "error";
  format: "json" | "text";
  outputs: string[];
}

export interface AppConfig {
  name: string;
  version: string;
  environment: "development" | "staging" | "production";
  database: DatabaseConfig;
  server: ServerConfig;
  logging: LoggingConfig;
  features: {
    [key: string]: boolean;
  };
}
