// Fibonacci implementations
// Demonstrates: recursion, memoization, iterative algorithms

// Recursive Fibonacci (simple but slow for large n)
export function fibRecursive(n: number): number {
  if (n <= 1) return n;
  return fibRecursive(n - 1) + fibRecursive(n - 2);
}

// Iterative Fibonacci (efficient)
export function fibIterative(n: number): number {
  if (n <= 1) return n;

  let prev = 0;
  let curr = 1;

  for (let i = 2; i <= n; i++) {
    const next = prev + curr;
    prev = curr;
    curr = next;
  }

  return curr;
}

// Memoized Fibonacci using closure
export function createMemoizedFib(): (n: number) => number {
  const cache: { [key: number]: number } = {};

  return function fib(n: number): number {
    if (n in cache) return cache[n];
    if (n <= 1) return n;

    const result = fib(n - 1) + fib(n - 2);
    cache[n] = result;
    return result;
  };
}

// Generate first n Fibonacci numbers
export function fibSequence(count: number): number[] {
  const result: number[] = [];
  let prev = 0;
  let curr = 1;

  for (let i = 0; i < count; i++) {
    result.push(prev);
    const next = prev + curr;
    prev = curr;
    curr = next;
  }

  return result;
}
