// Safe operation wrappers that handle errors gracefully

export interface Result<T, E = Error> {
    success: boolean;
    value?: T;
    error?: E;
}

export function ok<T>(value: T): Result<T> {
    return { success: true, value: value };
}

export function err<E = Error>(error: E): Result<never, E> {
    return { success: false, error: error };
}

// Try wrapper - converts exceptions to Result
export function tryFn<T>(fn: () => T): Result<T> {
    try {
        return ok(fn());
    } catch (e) {
        if (e instanceof Error) {
            return err(e);
        }
        return err(new Error(String(e)));
    }
}

// Safe division
export function safeDivide(a: number, b: number): Result<number> {
    if (b === 0) {
        return err(new Error("Division by zero"));
    }
    return ok(a / b);
}

// Safe array access
export function safeGet<T>(arr: T[], index: number): Result<T> {
    if (index < 0 || index >= arr.length) {
        return err(new RangeError("Index " + index + " out of bounds (0-" + (arr.length - 1) + ")"));
    }
    return ok(arr[index]);
}

// Safe property access
export function safeProperty<T>(obj: any, key: string): Result<T> {
    if (obj === null || obj === undefined) {
        return err(new TypeError("Cannot read property '" + key + "' of " + obj));
    }
    if (!(key in obj)) {
        return err(new ReferenceError("Property '" + key + "' does not exist"));
    }
    return ok(obj[key]);
}

// Safe JSON parse
export function safeJsonParse(json: string): Result<any> {
    try {
        return ok(JSON.parse(json));
    } catch (e) {
        if (e instanceof Error) {
            return err(new SyntaxError("Invalid JSON: " + e.message));
        }
        return err(new SyntaxError("Invalid JSON"));
    }
}

// Safe parseInt
export function safeParseInt(str: string, radix: number = 10): Result<number> {
    const result = parseInt(str, radix);
    if (Number.isNaN(result)) {
        return err(new Error("Cannot parse '" + str + "' as integer"));
    }
    return ok(result);
}

// Safe parseFloat
export function safeParseFloat(str: string): Result<number> {
    const result = parseFloat(str);
    if (Number.isNaN(result)) {
        return err(new Error("Cannot parse '" + str + "' as float"));
    }
    return ok(result);
}

// Retry with exponential backoff simulation
// Note: Simplified to avoid cross-module closure issues
export function retryOperation<T>(
    operation: () => T,
    maxAttempts: number
): Result<T> {
    for (let attempt: number = 1; attempt <= maxAttempts; attempt++) {
        const result = tryFn(operation);
        if (result.success) {
            return result;
        }
        // Continue to next attempt on failure
    }

    return err(new Error("Operation failed after " + maxAttempts + " attempts"));
}

// Unwrap Result or throw
export function unwrap<T>(result: Result<T>): T {
    if (result.success && result.value !== undefined) {
        return result.value;
    }
    throw result.error || new Error("Result has no value");
}

// Unwrap with default
export function unwrapOr<T>(result: Result<T>, defaultValue: T): T {
    if (result.success && result.value !== undefined) {
        return result.value;
    }
    return defaultValue;
}

// Map over Result
export function mapResult<T, U>(result: Result<T>, fn: (value: T) => U): Result<U> {
    if (result.success && result.value !== undefined) {
        return tryFn(() => fn(result.value as T));
    }
    return err(result.error || new Error("Result has no value"));
}

// Chain Results (flatMap)
export function chainResult<T, U>(result: Result<T>, fn: (value: T) => Result<U>): Result<U> {
    if (result.success && result.value !== undefined) {
        return fn(result.value);
    }
    return err(result.error || new Error("Result has no value"));
}
