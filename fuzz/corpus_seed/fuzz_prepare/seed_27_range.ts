// Range generator - creates sequences of numbers
// Demonstrates: function*, yield, parameters

/**
 * Generate numbers from start to end (exclusive)
 */
export function* range(start: number, end: number, step: number = 1): Generator<number> {
  for (let i = start; i < end; i += step) {
    yield i;
  }
}

/**
 * Generate numbers from start to end (inclusive)
 */
export function* rangeInclusive(start: number, end: number): Generator<number> {
  for (let i = start; i <= end; i++) {
    yield i;
  }
}

/**
 * Generate a countdown from n to 1
 */
export function* countdown(n: number): Generator<number> {
  while (n > 0) {
    yield n;
    n--;
  }
}

/**
 * Take first n items from a generator
 */
export function* take<T>(gen: Generator<T>, n: number): Generator<T> {
  let count = 0;
  for (const value of gen) {
    if (count >= n) break;
    yield value;
    count++;
  }
}

/**
 * Skip first n items from a generator
 */
export function* skip<T>(gen: Generator<T>, n: number): Generator<T> {
  let count = 0;
  for (const value of gen) {
    if (count >= n) {
      yield value;
    }
    count++;
  }
}
