// Test loop without closures for memory comparison
let sum = 0;
for (let i = 0; i < 10000; i++) {
    sum = sum + i;
}
sum
