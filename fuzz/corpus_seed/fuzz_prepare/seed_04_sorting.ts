// Sorting algorithm implementations
// Demonstrates: recursion, array manipulation, comparison functions

// QuickSort implementation
export function quickSort(arr: number[]): number[] {
  if (arr.length <= 1) return arr;

  const pivot = arr[Math.floor(arr.length / 2)];
  const left = arr.filter((x) => x < pivot);
  const middle = arr.filter((x) => x === pivot);
  const right = arr.filter((x) => x > pivot);

  return [...quickSort(left), ...middle, ...quickSort(right)];
}

// MergeSort implementation
export function mergeSort(arr: number[]): number[] {
  if (arr.length <= 1) return arr;

  const mid = Math.floor(arr.length / 2);
  const left = mergeSort(arr.slice(0, mid));
  const right = mergeSort(arr.slice(mid));

  return merge(left, right);
}

function merge(left: number[], right: number[]): number[] {
  const result: number[] = [];
  let i = 0;
  let j = 0;

  while (i < left.length && j < right.length) {
    if (left[i] <= right[j]) {
      result.push(left[i]);
      i++;
    } else {
      result.push(right[j]);
      j++;
    }
  }

  while (i < left.length) {
    result.push(left[i]);
    i++;
  }

  while (j < right.length) {
    result.push(right[j]);
    j++;
  }

  return result;
}

// Bubble Sort (simple but O(n^2))
export function bubbleSort(arr: number[]): number[] {
  const result = [...arr];
  const n = result.length;

  for (let i = 0; i < n - 1; i++) {
    for (let j = 0; j < n - i - 1; j++) {
      if (result[j] > result[j + 1]) {
        // Swap
        const temp = result[j];
        result[j] = result[j + 1];
        result[j + 1] = temp;
      }
    }
  }

  return result;
}

// Check if array is sorted
export function isSorted(arr: number[]): boolean {
  for (let i = 1; i < arr.length; i++) {
    if (arr[i] < arr[i - 1]) return false;
  }
  return true;
}
