// Memory Comparison Test
// Demonstrates the difference between:
// 1. Objects that go out of scope (memory freed)
// 2. Objects kept in an array (memory retained)
//
// Run this and compare the memory behavior:
//   /usr/bin/time -v ./target/debug/tsrun examples/memory-management/comparison.ts

const ITERATIONS: number = 1000;

console.log("=== Memory Comparison Test ===");
console.log("Iterations:", ITERATIONS);
console.log("");

// ============================================================================
// TEST A: Objects go out of scope - memory should stay stable
// ============================================================================

console.log("--- Test A: Objects Released ---");
console.log("Creating and discarding objects...");

let sumA: number = 0;

for (let i = 0; i < ITERATIONS; i++) {
    // Create an object with some data
    const obj = {
        id: i,
        data: [1, 2, 3, 4, 5, 6, 7, 8, 9, 10],
        name: "temp_" + i
    };

    // Use it
    sumA = sumA + obj.id + obj.data.length;

    // obj goes out of scope - should be freed immediately
    // Memory should NOT grow as we iterate
}

console.log("Test A complete. Sum:", sumA);
console.log("Memory should be stable during this test.");
console.log("");

// ============================================================================
// TEST B: Objects retained in array - memory SHOULD grow
// ============================================================================

console.log("--- Test B: Objects Retained ---");
console.log("Creating and KEEPING objects in an array...");

const retained: Array<{id: number; data: number[]; name: string}> = [];
let sumB: number = 0;

for (let i = 0; i < ITERATIONS; i++) {
    // Create an object with some data
    const obj = {
        id: i,
        data: [1, 2, 3, 4, 5, 6, 7, 8, 9, 10],
        name: "kept_" + i
    };

    // Keep it in the array
    retained.push(obj);

    // Use it
    sumB = sumB + obj.id + obj.data.length;

    // obj is still referenced by 'retained' - will NOT be freed
    // Memory WILL grow as we iterate
}

console.log("Test B complete. Sum:", sumB);
console.log("Retained array size:", retained.length);
console.log("Memory grew during this test (as expected).");
console.log("");

// ============================================================================
// TEST C: Closures that escape vs closures that don't
// ============================================================================

console.log("--- Test C: Closure Comparison ---");

// C1: Closures that are used and discarded
let closureSum1: number = 0;
for (let i = 0; i < ITERATIONS; i++) {
    const captured = i * 2;
    const fn = (): number => captured + 1;
    closureSum1 = closureSum1 + fn();
    // fn goes out of scope - captured environment freed
}
console.log("C1 (closures discarded) sum:", closureSum1);

// C2: Closures kept in array
const keptClosures: Array<() => number> = [];
for (let i = 0; i < 100; i++) {
    const captured = i * 2;
    keptClosures.push(() => captured + 1);
    // Closure is kept - environment stays alive
}
let closureSum2: number = 0;
for (const fn of keptClosures) {
    closureSum2 = closureSum2 + fn();
}
console.log("C2 (closures retained) sum:", closureSum2);
console.log("Retained closures:", keptClosures.length);
console.log("");

// ============================================================================
// Summary
// ============================================================================

console.log("=== Summary ===");
console.log("Test A: Objects created and freed each iteration");
console.log("  -> Memory stable, only current iteration's object in memory");
console.log("");
console.log("Test B: Objects kept in array");
console.log("  -> Memory grows, all " + retained.length + " objects in memory");
console.log("");
console.log("Test C: Closures discarded vs retained");
console.log("  -> Discarded closures free their environments");
console.log("  -> Retained closures keep environments alive");
console.log("");
console.log("This demonstrates proper garbage collection behavior:");
console.log("- Unreferenced objects are freed");
console.log("- Referenced objects stay alive");
