// # Should show no leaks at exit
// valgrind --leak-check=full ./target/debug/tsrun examples/algorithms/main.ts

// # Should show stable memory during execution (no accumulation)
let sum = 0;
for (let i = 0; i < 10000; i++) {
    let fn = () => i;
    sum = sum + fn();
}
sum

/*
 cargo build --bin tsrun
 /usr/bin/time -v ./target/debug/tsrun examples/loop_closures.ts
 valgrind ./target/debug/tsrun examples/loop_closures.ts
*/
