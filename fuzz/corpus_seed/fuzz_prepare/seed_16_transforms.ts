// Transformation functions for data pipeline
// Demonstrates: arrow functions, destructuring, spread operator

import { Product, Order } from "./data";

// Filter products by category
export const filterByCategory = (products: Product[], category: string): Product[] =>
  products.filter((p) => p.category === category);

// Filter in-stock products
export const filterInStock = (products: Product[]): Product[] =>
  products.filter(({ stock }) => stock > 0);

// Filter low-stock products (below threshold)
export const filterLowStock = (products: Product[], threshold: number = 50): Product[] =>
  products.filter(({ stock }) => stock < threshold);

// Map to product summaries
export const toProductSummary = (products: Product[]): { name: string; price: number }[] =>
  products.map(({ name, price }) => ({ name, price }));

// Calculate total inventory value
export const calculateInventoryValue = (products: Product[]): number =>
  products.reduce((total, { price, stock }) => total + price * stock, 0);

// Get all unique tags (using a simpler approach without Set spread)
export const getAllTags = (products: Product[]): string[] => {
  const allTags = products.flatMap(({ tags }) => tags);
  const unique: string[] = [];
  for (const tag of allTags) {
    if (!unique.includes(tag)) {
      unique.push(tag);
    }
  }
  return unique;
};

// Sort products by price
export const sortByPrice = (products: Product[], ascending: boolean = true): Product[] =>
  [...products].sort((a, b) => ascending ? a.price - b.price : b.price - a.price);

// Group products by category
export const groupByCategory = (products: Product[]): { [category: string]: Product[] } =>
  products.reduce((groups, product) => {
    const { category } = product;
    if (!groups[category]) {
      groups[category] = [];
    }
    groups[category].push(product);
    return groups;
  }, {} as { [category: string]: Product[] });

// Get order totals
export const getOrderTotal = (order: Order, products: Product[]): number =>
  order.products.reduce((total, { productId, quantity }) => {
    const product = products.find((p) => p.id === productId);
    return total + (product ? product.price * quantity : 0);
  }, 0);

// Enrich orders with product details
export const enrichOrders = (orders: Order[], products: Product[]): any[] =>
  orders.map((order) => ({
    ...order,
    total: getOrderTotal(order, products),
    items: order.products.map(({ productId, quantity }) => {
      const product = products.find((p) => p.id === productId);
      return {
        product: product ? product.name : "Unknown",
        quantity,
        subtotal: product ? product.price * quantity : 0,
      };
    }),
  }));

// Get products by status
export const getOrdersByStatus = (orders: Order[], status: Order["status"]): Order[] =>
  orders.filter((o) => o.status === status);

// Calculate category statistics
export const getCategoryStats = (products: Product[]): { category: string; count: number; avgPrice: number; totalValue: number }[] => {
  const grouped = groupByCategory(products);
  return Object.entries(grouped).map(([category, items]) => ({
    category,
    count: items.length,
    avgPrice: items.reduce((sum, p) => sum + p.price, 0) / items.length,
    totalValue: items.reduce((sum, p) => sum + p.price * p.stock, 0),
  }));
};
