// Base Entity class demonstrating core OOP features
// Features: private fields, getters/setters, static methods/fields

export class Entity {
  // Private field for unique ID
  #id: number;

  // Static field to track entity count
  static #nextId: number = 1;

  // Creation timestamp
  #createdAt: Date;

  constructor() {
    this.#id = Entity.#nextId++;
    this.#createdAt = new Date();
  }

  // Getter for id (read-only from outside)
  get id(): number {
    return this.#id;
  }

  // Getter for creation timestamp
  get createdAt(): Date {
    return this.#createdAt;
  }

  // Static method to get total entities created
  static getEntityCount(): number {
    return Entity.#nextId - 1;
  }

  // Virtual method for serialization (can be overridden)
  toJSON(): object {
    return {
      id: this.#id,
      createdAt: this.#createdAt.toISOString(),
    };
  }
}
