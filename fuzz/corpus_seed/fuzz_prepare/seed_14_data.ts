// Sample data array for transformation pipeline
// Demonstrates: interfaces, type annotations, arrays

export interface Product {
  id: number;
  name: string;
  category: string;
  price: number;
  stock: number;
  tags: string[];
}

export interface Order {
  id: number;
  customerId: number;
  products: { productId: number; quantity: number }[];
  date: string;
  status: "pending" | "shipped" | "delivered";
}

export const products: Product[] = [
  { id: 1, name: "Laptop", category: "Electronics", price: 999.99, stock: 50, tags: ["computer", "portable"] },
  { id: 2, name: "Mouse", category: "Electronics", price: 29.99, stock: 200, tags: ["peripheral", "input"] },
  { id: 3, name: "Keyboard", category: "Electronics", price: 79.99, stock: 150, tags: ["peripheral", "input"] },
  { id: 4, name: "Desk Chair", category: "Furniture", price: 299.99, stock: 30, tags: ["office", "seating"] },
  { id: 5, name: "Monitor", category: "Electronics", price: 449.99, stock: 75, tags: ["display", "computer"] },
  { id: 6, name: "Standing Desk", category: "Furniture", price: 599.99, stock: 20, tags: ["office", "ergonomic"] },
  { id: 7, name: "Webcam", category: "Electronics", price: 89.99, stock: 100, tags: ["peripheral", "video"] },
  { id: 8, name: "Headphones", category: "Electronics", price: 199.99, stock: 80, tags: ["audio", "wireless"] },
  { id: 9, name: "USB Hub", category: "Electronics", price: 39.99, stock: 250, tags: ["peripheral", "connectivity"] },
  { id: 10, name: "Desk Lamp", category: "Furniture", price: 49.99, stock: 60, tags: ["office", "lighting"] },
];

export const orders: Order[] = [
  { id: 101, customerId: 1, products: [{ productId: 1, quantity: 1 }, { productId: 2, quantity: 2 }], date: "2024-01-15", status: "delivered" },
  { id: 102, customerId: 2, products: [{ productId: 3, quantity: 1 }, { productId: 5, quantity: 1 }], date: "2024-01-16", status: "shipped" },
  { id: 103, customerId: 1, products: [{ productId: 8, quantity: 1 }], date: "2024-01-17", status: "pending" },
  { id: 104, customerId: 3, products: [{ productId: 4, quantity: 2 }, { productId: 6, quantity: 1 }], date: "2024-01-18", status: "delivered" },
  { id: 105, customerId: 2, products: [{ productId: 7, quantity: 1 }, { productId: 9, quantity: 3 }], date: "2024-01-19", status: "shipped" },
];
