// Order class demonstrating composition and complex objects
// Features: class composition, computed properties, method chaining

import { Entity } from "./entity";
import { User } from "./user";

// OrderItem as a simple class (not extending Entity)
export class OrderItem {
  #productName: string;
  #quantity: number;
  #unitPrice: number;

  constructor(productName: string, quantity: number, unitPrice: number) {
    this.#productName = productName;
    this.#quantity = quantity;
    this.#unitPrice = unitPrice;
  }

  get productName(): string {
    return this.#productName;
  }

  get quantity(): number {
    return this.#quantity;
  }

  get unitPrice(): number {
    return this.#unitPrice;
  }

  // Computed property
  get total(): number {
    return this.#quantity * this.#unitPrice;
  }

  toJSON(): object {
    return {
      productName: this.#productName,
      quantity: this.#quantity,
      unitPrice: this.#unitPrice,
      total: this.total,
    };
  }
}

// Order status enum-like values
const OrderStatus = {
  PENDING: "pending",
  CONFIRMED: "confirmed",
  SHIPPED: "shipped",
  DELIVERED: "delivered",
  CANCELLED: "cancelled",
};

export class Order extends Entity {
  #user: User;
  #items: OrderItem[];
  #status: string;

  constructor(user: User) {
    super();
    this.#user = user;
    this.#items = [];
    this.#status = OrderStatus.PENDING;
  }

  get user(): User {
    return this.#user;
  }

  get items(): OrderItem[] {
    return [...this.#items]; // Return copy to prevent direct mutation
  }

  get status(): string {
    return this.#status;
  }

  // Computed property for total
  get total(): number {
    return this.#items.reduce((sum, item) => sum + item.total, 0);
  }

  // Computed property for item count
  get itemCount(): number {
    return this.#items.reduce((count, item) => count + item.quantity, 0);
  }

  // Method chaining - returns this
  addItem(productName: string, quantity: number, unitPrice: number): Order {
    this.#items.push(new OrderItem(productName, quantity, unitPrice));
    return this;
  }

  // Status transitions
  confirm(): boolean {
    if (this.#status === OrderStatus.PENDING && this.#items.length > 0) {
      this.#status = OrderStatus.CONFIRMED;
      return true;
    }
    return false;
  }

  ship(): boolean {
    if (this.#status === OrderStatus.CONFIRMED) {
      this.#status = OrderStatus.SHIPPED;
      return true;
    }
    return false;
  }

  deliver(): boolean {
    if (this.#status === OrderStatus.SHIPPED) {
      this.#status = OrderStatus.DELIVERED;
      return true;
    }
    return false;
  }

  cancel(): boolean {
    if (
      this.#status === OrderStatus.PENDING ||
      this.#status === OrderStatus.CONFIRMED
    ) {
      this.#status = OrderStatus.CANCELLED;
      return true;
    }
    return false;
  }

  // Override toJSON
  toJSON(): object {
    return {
      ...super.toJSON(),
      user: this.#user.toJSON(),
      items: this.#items.map((item) => item.toJSON()),
      status: this.#status,
      total: this.total,
      itemCount: this.itemCount,
    };
  }
}
