// Async data processing utilities
// Demonstrates: async transformation, error handling, Promise chaining

// ============================================================================
// Types
// ============================================================================

interface ProcessedData<T> {
  success: boolean;
  data?: T;
  error?: string;
}

interface Statistics {
  count: number;
  items: string[];
}

// ============================================================================
// Async Processing Functions
// ============================================================================

/**
 * Transform data with error handling
 */
export async function safeProcess<T, R>(
  input: T,
  processor: (data: T) => R
): Promise<ProcessedData<R>> {
  try {
    const result = processor(input);
    return { success: true, data: result };
  } catch (e) {
    return { success: false, error: String(e) };
  }
}

/**
 * Map over array asynchronously
 */
export async function asyncMap<T, R>(
  items: T[],
  mapper: (item: T) => Promise<R>
): Promise<R[]> {
  const promises = items.map(mapper);
  return Promise.all(promises);
}

/**
 * Filter array asynchronously
 */
export async function asyncFilter<T>(
  items: T[],
  predicate: (item: T) => Promise<boolean>
): Promise<T[]> {
  const results: T[] = [];
  for (const item of items) {
    if (await predicate(item)) {
      results.push(item);
    }
  }
  return results;
}

/**
 * Aggregate results from multiple async sources
 */
export async function aggregateResults<T>(
  sources: Promise<T[]>[]
): Promise<T[]> {
  const allArrays = await Promise.all(sources);
  return allArrays.flat();
}

/**
 * Calculate statistics from async data
 */
export async function calculateStats<T>(
  fetchData: () => Promise<T[]>,
  getName: (item: T) => string
): Promise<Statistics> {
  const data = await fetchData();
  return {
    count: data.length,
    items: data.map(getName),
  };
}

/**
 * Chain multiple async operations
 */
export async function pipeline<A, B, C>(
  initial: Promise<A>,
  step1: (a: A) => Promise<B>,
  step2: (b: B) => Promise<C>
): Promise<C> {
  const a = await initial;
  const b = await step1(a);
  return step2(b);
}

/**
 * Retry an async operation with attempts
 */
export async function retry<T>(
  operation: () => Promise<T>,
  maxAttempts: number
): Promise<T | null> {
  let attempts = 0;
  while (attempts < maxAttempts) {
    try {
      return await operation();
    } catch (e) {
      attempts++;
      if (attempts >= maxAttempts) {
        return null;
      }
    }
  }
  return null;
}

/**
 * Process all items and collect results with error handling
 */
export async function processAllSettled<T, R>(
  items: T[],
  processor: (item: T) => Promise<R>
): Promise<{ fulfilled: R[]; rejected: string[] }> {
  const results = await Promise.allSettled(items.map(processor));

  const fulfilled: R[] = [];
  const rejected: string[] = [];

  for (const result of results) {
    if (result.status === "fulfilled") {
      fulfilled.push(result.value);
    } else {
      rejected.push(String(result.reason));
    }
  }

  return { fulfilled, rejected };
}
