// Simple test to verify GC is working
// Run with: cargo run --release --bin tsrun -- examples/memory-management/gc-debug-simple.ts

console.log("Starting GC debug test...");

for (let i = 0; i < 5; i++) {
    const a = { id: i, data: "test" };
    const b = { id: i + 1, data: "test" };

    // Create cycle
    (a as any).other = b;
    (b as any).other = a;

    console.log("Iteration", i, "created objects");
}

console.log("Loop complete");
