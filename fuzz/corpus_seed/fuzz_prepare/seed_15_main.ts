// Data Transformation Pipeline Example
// Demonstrates: array methods, arrow functions, destructuring, method chaining, spread operator

import { products, orders } from "./data";
import {
  filterByCategory,
  filterLowStock,
  toProductSummary,
  calculateInventoryValue,
  getAllTags,
  sortByPrice,
  groupByCategory,
  enrichOrders,
  getOrdersByStatus,
  getCategoryStats,
} from "./transforms";

// ═══════════════════════════════════════════════════════════════════════════
// Pipeline 1: Product Analysis
// ═══════════════════════════════════════════════════════════════════════════

const electronicsProducts = filterByCategory(products, "Electronics");
const electronicsSummary = toProductSummary(sortByPrice(electronicsProducts));

// ═══════════════════════════════════════════════════════════════════════════
// Pipeline 2: Inventory Analysis
// ═══════════════════════════════════════════════════════════════════════════

const lowStockItems = filterLowStock(products, 40);
const totalInventoryValue = calculateInventoryValue(products);
const allTags = getAllTags(products);

// ═══════════════════════════════════════════════════════════════════════════
// Pipeline 3: Category Statistics
// ═══════════════════════════════════════════════════════════════════════════

const categoryStats = getCategoryStats(products);
const groupedProducts = groupByCategory(products);

// ═══════════════════════════════════════════════════════════════════════════
// Pipeline 4: Order Processing
// ═══════════════════════════════════════════════════════════════════════════

const pendingOrders = getOrdersByStatus(orders, "pending");
const shippedOrders = getOrdersByStatus(orders, "shipped");
const enrichedOrders = enrichOrders(orders, products);

// ═══════════════════════════════════════════════════════════════════════════
// Pipeline 5: Complex Chained Transformation
// ═══════════════════════════════════════════════════════════════════════════

// Get top 3 most expensive in-stock electronics
const topExpensiveElectronics = products
  .filter((p) => p.category === "Electronics" && p.stock > 0)
  .sort((a, b) => b.price - a.price)
  .slice(0, 3)
  .map(({ id, name, price }) => ({ id, name, price }));

// Calculate average order value
const orderTotals = enrichedOrders.map((o) => o.total);
const avgOrderValue = orderTotals.reduce((a, b) => a + b, 0) / orderTotals.length;

// ═══════════════════════════════════════════════════════════════════════════
// Output Results
// ═══════════════════════════════════════════════════════════════════════════

const results = {
  electronicsAnalysis: {
    count: electronicsProducts.length,
    products: electronicsSummary,
  },
  inventoryAnalysis: {
    totalValue: Math.round(totalInventoryValue * 100) / 100,
    lowStockCount: lowStockItems.length,
    lowStockItems: lowStockItems.map((p) => p.name),
    uniqueTags: allTags,
  },
  categoryStats,
  orderSummary: {
    totalOrders: orders.length,
    pendingCount: pendingOrders.length,
    shippedCount: shippedOrders.length,
    averageOrderValue: Math.round(avgOrderValue * 100) / 100,
  },
  topExpensiveElectronics,
};

JSON.stringify(results, null, 2);
