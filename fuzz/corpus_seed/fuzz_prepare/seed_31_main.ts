// Import test with nested imports
// main.ts -> math.ts -> constants.ts
import { add, multiply, circleArea, PI, E } from "./math";
import { greet } from "./utils";

const result = {
    addition: add(2, 3),
    multiplication: multiply(4, 5),
    circleArea: circleArea(10),
    constants: { PI, E },
    greeting: greet("World")
};

JSON.stringify(result, null, 2);
