// Simulated async data fetching utilities
// Demonstrates: Promise creation, async functions, simulated network calls

// ============================================================================
// Types
// ============================================================================

interface User {
  id: number;
  name: string;
  email: string;
}

interface Post {
  id: number;
  userId: number;
  title: string;
  body: string;
}

interface Comment {
  id: number;
  postId: number;
  author: string;
  text: string;
}

// ============================================================================
// Simulated Database
// ============================================================================

const users: User[] = [
  { id: 1, name: "Alice", email: "alice@example.com" },
  { id: 2, name: "Bob", email: "bob@example.com" },
  { id: 3, name: "Charlie", email: "charlie@example.com" },
];

const posts: Post[] = [
  { id: 1, userId: 1, title: "Hello World", body: "My first post!" },
  { id: 2, userId: 1, title: "TypeScript Tips", body: "Use strict types." },
  { id: 3, userId: 2, title: "Async Patterns", body: "Promises are powerful." },
];

const comments: Comment[] = [
  { id: 1, postId: 1, author: "Bob", text: "Great post!" },
  { id: 2, postId: 1, author: "Charlie", text: "Welcome!" },
  { id: 3, postId: 2, author: "Bob", text: "Very helpful." },
  { id: 4, postId: 3, author: "Alice", text: "I agree!" },
];

// ============================================================================
// Async Fetch Functions
// ============================================================================

/**
 * Fetch a user by ID
 */
export async function fetchUser(id: number): Promise<User | null> {
  // Simulated async operation
  const user = users.find((u) => u.id === id);
  return user || null;
}

/**
 * Fetch all users
 */
export async function fetchAllUsers(): Promise<User[]> {
  return users;
}

/**
 * Fetch posts by user ID
 */
export async function fetchUserPosts(userId: number): Promise<Post[]> {
  return posts.filter((p) => p.userId === userId);
}

/**
 * Fetch a post by ID
 */
export async function fetchPost(id: number): Promise<Post | null> {
  const post = posts.find((p) => p.id === id);
  return post || null;
}

/**
 * Fetch comments for a post
 */
export async function fetchPostComments(postId: number): Promise<Comment[]> {
  return comments.filter((c) => c.postId === postId);
}

/**
 * Fetch user with their posts (demonstrates sequential awaits)
 */
export async function fetchUserWithPosts(
  userId: number
): Promise<{ user: User | null; posts: Post[] }> {
  const user = await fetchUser(userId);
  const userPosts = await fetchUserPosts(userId);
  return { user, posts: userPosts };
}

/**
 * Fetch multiple users in parallel (demonstrates Promise.all)
 */
export async function fetchUsersById(ids: number[]): Promise<(User | null)[]> {
  const promises = ids.map((id) => fetchUser(id));
  return Promise.all(promises);
}

/**
 * Fetch first available resource (demonstrates Promise.race pattern)
 */
export async function fetchFirstPost(postIds: number[]): Promise<Post | null> {
  const promises = postIds.map((id) => fetchPost(id));
  return Promise.race(promises);
}
