// Circular Reference Test
// Tests that circular references don't prevent memory cleanup
//
// Note: Rust's Rc uses reference counting which can leak circular references.
// However, when the entire cycle goes out of scope together, it should be freed.
// This test verifies that circular structures created and dropped together
// are properly cleaned up.

export interface CircularResult {
    iterations: number;
    count: number;
}

interface Node {
    id: number;
    next: Node | null;
    prev: Node | null;
}

// Test doubly-linked list style circular references
export function testCircularReferences(): CircularResult {
    let count: number = 0;
    const iterations: number = 1000;

    for (let i = 0; i < iterations; i++) {
        // Create a circular structure
        const a: Node = { id: 1, next: null, prev: null };
        const b: Node = { id: 2, next: null, prev: null };
        const c: Node = { id: 3, next: null, prev: null };

        // Link them in a circle: a -> b -> c -> a
        a.next = b;
        b.next = c;
        c.next = a;

        // And backwards: a <- b <- c <- a
        a.prev = c;
        b.prev = a;
        c.prev = b;

        // Traverse the circle
        let current: Node | null = a;
        for (let j = 0; j < 6; j++) {
            if (current) {
                count = count + current.id;
                current = current.next;
            }
        }

        // a, b, c all go out of scope together
        // The entire circular structure should be collected
    }

    return { iterations, count };
}

// Test self-referencing objects
export function testSelfReference(): number {
    let sum: number = 0;

    for (let i = 0; i < 1000; i++) {
        const obj: { value: number; self: any } = {
            value: i,
            self: null
        };
        obj.self = obj; // Self-reference

        sum = sum + obj.value;

        // obj goes out of scope - should be collected despite self-reference
    }

    return sum;
}

// Test parent-child circular references
interface TreeNode {
    value: number;
    parent: TreeNode | null;
    children: TreeNode[];
}

export function testParentChildCircular(): number {
    let total: number = 0;

    for (let i = 0; i < 500; i++) {
        // Create a tree with parent back-references
        const root: TreeNode = { value: i, parent: null, children: [] };

        const child1: TreeNode = { value: i + 1, parent: root, children: [] };
        const child2: TreeNode = { value: i + 2, parent: root, children: [] };

        root.children.push(child1);
        root.children.push(child2);

        const grandchild: TreeNode = { value: i + 3, parent: child1, children: [] };
        child1.children.push(grandchild);

        // Sum all values
        total = total + root.value + child1.value + child2.value + grandchild.value;

        // Entire tree goes out of scope
    }

    return total;
}

// Test Map with circular values
export function testMapCircular(): number {
    let count: number = 0;

    for (let i = 0; i < 500; i++) {
        const map: Map<string, any> = new Map();

        const objA = { id: "a", ref: null as any };
        const objB = { id: "b", ref: null as any };

        objA.ref = objB;
        objB.ref = objA;

        map.set("a", objA);
        map.set("b", objB);

        count = count + map.size;

        // map and both objects go out of scope
    }

    return count;
}
