// User class demonstrating inheritance and encapsulation
// Features: extends, super(), private fields, method override

import { Entity } from "./entity";

export class User extends Entity {
  #name: string;
  #email: string;
  #role: string;

  constructor(name: string, email: string, role: string = "user") {
    super(); // Call parent constructor
    this.#name = name;
    this.#email = email;
    this.#role = role;
  }

  // Getters for user properties
  get name(): string {
    return this.#name;
  }

  get email(): string {
    return this.#email;
  }

  get role(): string {
    return this.#role;
  }

  // Setter with validation
  set role(newRole: string) {
    const validRoles = ["user", "admin", "moderator"];
    if (validRoles.includes(newRole)) {
      this.#role = newRole;
    }
  }

  // Check if user is admin
  isAdmin(): boolean {
    return this.#role === "admin";
  }

  // Override parent's toJSON
  toJSON(): object {
    return {
      ...super.toJSON(),
      name: this.#name,
      email: this.#email,
      role: this.#role,
    };
  }
}
