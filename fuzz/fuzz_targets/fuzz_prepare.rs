//! C05 thorough tier: coverage-guided search for source texts that make preparing a program
//! panic, die or exceed the parser work bound. Same in-target oracle as harness/src/props/c05.rs:
//!   * bytes -> lossy UTF-8 (every byte string is a case)
//!   * Parser::parse_program + Compiler::compile_program, Interpreter::prepare (script, module),
//!     Interpreter::provide_module must return Ok or Err (a panic aborts the fuzzer = finding)
//!   * H2 parser work counter armed at 64 + 40*len + 4*len^2 (a runaway speculative parse panics
//!     with "verif: parser work limit exceeded")
//! The whole case runs on a long-lived thread with a fixed 8 MiB stack, so "overflows the native
//! stack" means the same here as in the harness.
//!
//! cd /verif/fuzz && cargo +nightly fuzz run --fuzz-dir . fuzz_prepare corpus/fuzz_prepare corpus_seed/fuzz_prepare -- \
//!     -runs=1000000 -seed=1 -max_len=8192 -dict=fuzz_prepare.dict
//! (`./check C05 --tier thorough` does this after the harness campaign; VERIF_C05_FUZZ_RUNS overrides -runs)
#![no_main]

use libfuzzer_sys::fuzz_target;
use std::sync::mpsc::{channel, Sender};
use std::sync::{Mutex, OnceLock};

type Job = (Vec<u8>, Sender<()>);
static RUNNER: OnceLock<Mutex<Sender<Job>>> = OnceLock::new();

fn work_bound(len: usize) -> u64 {
    let l = len as u64;
    64 + 40 * l + 4 * l * l
}

fn check(src: &str, interp_routes: bool) {
    use tsrun::verif_hooks as h;
    let bound = work_bound(src.len());
    {
        let mut dict = tsrun::StringDict::new();
        h::parser_work_reset();
        h::parser_work_set_limit(bound);
        let mut p = tsrun::parser::Parser::new(src, &mut dict);
        let parsed = p.parse_program();
        h::parser_work_set_limit(0);
        if let Ok(prog) = parsed {
            let _ = tsrun::compiler::Compiler::compile_program(&prog);
        }
    }
    if interp_routes {
        for route in 0..3 {
            let mut it = tsrun::Interpreter::new();
            h::parser_work_reset();
            h::parser_work_set_limit(bound);
            match route {
                0 => {
                    let _ = it.prepare(src, None);
                }
                1 => {
                    let _ = it.prepare(src, Some(tsrun::ModulePath::new("/main.ts".to_string())));
                }
                _ => {
                    let _ = it.provide_module(tsrun::ModulePath::new("/dep.ts".to_string()), src);
                }
            }
            h::parser_work_set_limit(0);
        }
    }
}

fn runner() -> &'static Mutex<Sender<Job>> {
    RUNNER.get_or_init(|| {
        let (tx, rx) = channel::<Job>();
        std::thread::Builder::new()
            .stack_size(8 << 20)
            .name("c05-case".into())
            .spawn(move || {
                while let Ok((bytes, done)) = rx.recv() {
                    let src = String::from_utf8_lossy(&bytes);
                    // the Interpreter routes cost ~1.5 ms: take them for 1 input in 8 (by content)
                    let h = bytes.iter().fold(0u32, |a, b| a.wrapping_mul(31).wrapping_add(*b as u32));
                    check(&src, h % 8 == 0);
                    let _ = done.send(());
                }
            })
            .expect("spawn case thread");
        Mutex::new(tx)
    })
}

fuzz_target!(|data: &[u8]| {
    if data.len() > 16 * 1024 {
        return;
    }
    let (done_tx, done_rx) = channel();
    runner().lock().unwrap().send((data.to_vec(), done_tx)).expect("case thread alive");
    // a panic on the case thread drops done_tx without sending: libFuzzer's panic hook has
    // already aborted the process by then (panic = finding); a recv error is the same finding
    done_rx.recv().expect("case thread panicked");
});
