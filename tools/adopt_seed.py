#!/usr/bin/env python3
"""tools/adopt_seed.py <ID> <n> [check ids...]
Adopts deliverable n of the independent seeding agent for property <ID> (/tmp/seed/<ID>.out/) into
/verif/seeded/<ID>-<n>/ after confirming it (tools/verify_seed.sh), then runs the quick tier of the given
checks (default: the property's own check) against /repo with the patch applied (tools/seedtest.sh) and
records everything in meta.json.  Never leaves /repo dirty."""
import json, os, shutil, subprocess, sys, glob
ID, n = sys.argv[1], sys.argv[2]
checks = sys.argv[3:] or [ID]
src = f"/tmp/seed/{ID}.out"
patch = f"{src}/patch{n}.diff"
demos = [f for f in glob.glob(f"{src}/demo{n}.*") if not f.endswith('.cmd')]
if not os.path.exists(patch) or not demos:
    print("missing deliverable", patch, demos); sys.exit(2)
demo = demos[0]
dst = f"/verif/seeded/{os.environ.get('SEED_NAME') or (ID + '-' + n)}"
os.makedirs(dst, exist_ok=True)
meta = {}
try:
    meta = json.load(open(f"{src}/meta{n}.json"))
except Exception as e:
    meta = {"property": ID, "note": f"agent meta unreadable: {e}"}
if os.environ.get("SKIP_VERIFY") != "1":
    r = subprocess.run(["bash", "/verif/tools/verify_seed.sh", patch, demo], capture_output=True, text=True)
    line = [l for l in r.stdout.splitlines() if l.startswith("{")]
    ver = json.loads(line[-1]) if line else {"error": r.stdout[-300:] + r.stderr[-300:]}
    meta["confirmed"] = ver
    print("verify:", ver)
    if r.returncode != 0:
        json.dump(meta, open(f"{dst}/meta.rejected.json", "w"), indent=1)
        print("NOT CONFIRMED; not adopted"); sys.exit(1)
shutil.copy(patch, f"{dst}/patch.diff")
shutil.copy(demo, f"{dst}/demo." + demo.rsplit(".", 1)[1])
if os.path.exists(demo.rsplit(".", 1)[0] + ".cmd"):
    shutil.copy(demo.rsplit(".", 1)[0] + ".cmd", f"{dst}/demo.cmd")
out = subprocess.run(["bash", "/verif/tools/seedtest.sh", f"{dst}/patch.diff"] + checks, capture_output=True, text=True).stdout
print(out)
res = meta.get("checks_run", {})
for l in out.splitlines():
    p = l.split()
    if p and p[0] in checks and len(p) > 1 and p[1].startswith("exit="):
        res[p[0]] = {"exit": int(p[1][5:]), "summary": " ".join(p[2:])[:300], "caught": p[1] == "exit=1"}
meta["checks_run"] = res
meta["what_i_ran"] = "tools/verify_seed.sh (scratch worktree: patch applies+compiles, demo fails with it, repo test-suite passes with it, demo passes without it); tools/seedtest.sh (patch applied to /repo, ./check <id> --tier quick, reverted)"
json.dump(meta, open(f"{dst}/meta.json", "w"), indent=1)
print("adopted", dst, {k: v["caught"] for k, v in res.items()})
