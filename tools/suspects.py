#!/usr/bin/env python3
"""After a VERIF_KEEP_GOING run: rank feature tags by failure association (fail count vs total count)."""
import json, glob, sys, collections
pid = sys.argv[1]
ev = json.load(open(f"/verif/evidence/{pid}.json"))
total = ev["coverage"]["tags"]
fails = collections.Counter()
nfail = 0
for f in glob.glob(f"/verif/replays/{pid}/*.json"):
    v = json.load(open(f))
    nfail += 1
    for t in set(v["case"].get("tags", [])):
        fails[t] += 1
rows = []
for t, n in fails.items():
    tot = total.get(t, n)
    rows.append((n / max(tot, 1), n, tot, t))
rows.sort(reverse=True)
print("failures:", nfail, "evaluations:", ev["coverage"]["evaluations"])
for r in rows[:int(sys.argv[2]) if len(sys.argv) > 2 else 50]:
    print(f"{r[0]:.2f}  {r[1]:4d}/{r[2]:<6d} {r[3]}")
