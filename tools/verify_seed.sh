#!/bin/bash
# tools/verify_seed.sh <patch.diff> <demo file> [<worktree dir>]
# Confirms a seeded change independently, in a scratch worktree of /repo (default /tmp/vs/wt, re-used so that
# rebuilds are incremental; remove it with `git -C /repo worktree remove --force /tmp/vs/wt` when done):
#   1. the patch applies to /repo's HEAD and compiles,
#   2. the demonstration FAILS with the patch,
#   3. the project's own test suite (hooks off) still passes with the patch,
#   4. the demonstration PASSES without the patch.
# Prints a JSON object with the four verdicts; exit 0 iff all four hold.
set -u
PATCH="$(readlink -f "$1")"; DEMO="$(readlink -f "$2")"; WT="${3:-/tmp/vs/wt}"
mkdir -p "$(dirname "$WT")"
LOGD="$WT.logs"; mkdir -p "$LOGD"
if [ ! -d "$WT" ]; then git -C /repo worktree add --detach "$WT" HEAD >/dev/null 2>&1 || { echo '{"error":"worktree"}'; exit 2; }; fi
cd "$WT" || exit 2
git checkout -q --detach "$(git -C /repo rev-parse HEAD)" 2>/dev/null
git checkout -q -- . ; rm -f tests/seed_demo_*.rs
export CARGO_NET_OFFLINE=true
ext="${DEMO##*.}"
applies=false; demo_fails=false; suite_ok=false; demo_passes=false; suite_summary=""
if git apply --check "$PATCH" 2>/dev/null; then applies=true; git apply "$PATCH"; fi
run_demo() {
  if [ "$ext" = "rs" ]; then
    cp "$DEMO" tests/seed_demo_x.rs
    FEAT=""; grep -q "tsrun::ffi\|c-api" "$DEMO" && FEAT="--features c-api"
    timeout 1800 cargo test --offline $FEAT --test seed_demo_x >$LOGD/demo.log 2>&1; rc=$?
    rm -f tests/seed_demo_x.rs
    return $rc
  else
    # script demo: a .cmd file next to it holds the command line; {file} is replaced by the script path
    cmd="$(cat "${DEMO%.*}.cmd")"; cmd="${cmd//\{file\}/$DEMO}"
    timeout 600 bash -c "$cmd" >$LOGD/demo.log 2>&1
  fi
}
if $applies; then
  if ! timeout 1800 cargo build --offline >$LOGD/build.log 2>&1; then
    echo "{\"applies\":true,\"compiles\":false}"; git checkout -q -- .; exit 1
  fi
  if run_demo; then demo_fails=false; else demo_fails=true; fi
  timeout 3000 cargo test --workspace --no-fail-fast --offline >$LOGD/suite.log 2>&1
  suite_summary="$(grep -E '^test result' $LOGD/suite.log | awk '{p+=$4; f+=$6} END {print p" passed "f" failed"}')"
  if grep -qE '^test result' $LOGD/suite.log && ! grep -qE '^test result: FAILED|[1-9][0-9]* failed' $LOGD/suite.log; then suite_ok=true; fi
  git checkout -q -- .
  if run_demo; then demo_passes=true; fi
fi
echo "{\"applies\":$applies,\"demo_fails_with_change\":$demo_fails,\"suite_passes_with_change\":$suite_ok,\"suite\":\"$suite_summary\",\"demo_passes_without_change\":$demo_passes}"
$applies && $demo_fails && $suite_ok && $demo_passes
