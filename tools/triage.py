#!/usr/bin/env python3
"""Summarise replay files of a property: group by (message class), show smallest program per class."""
import json, sys, glob, re, collections
pid = sys.argv[1]
limit = int(sys.argv[2]) if len(sys.argv) > 2 else 40
groups = collections.defaultdict(list)
for f in glob.glob(f"/verif/replays/{pid}/*.json"):
    v = json.load(open(f))
    obs = v.get("observed") or {}
    t = (obs.get("tsrun") or {}); n = (obs.get("node") or {})
    tl = t.get("log", []) if isinstance(t, dict) else []
    nl = n.get("log", []) if isinstance(n, dict) else []
    diff = None
    for a, b in zip(tl, nl):
        if a != b:
            diff = (a, b); break
    if diff is None and len(tl) != len(nl):
        diff = (tl[len(nl)] if len(tl) > len(nl) else "<none>", nl[len(tl)] if len(nl) > len(tl) else "<none>")
    if diff is None:
        diff = (t.get("end") if isinstance(t, dict) else str(t), n.get("end") if isinstance(n, dict) else str(n))
    diff = (str(diff[0]), str(diff[1]))
    key = re.sub(r"\d+", "N", f"{diff[0][:60]} | {diff[1][:60]}")
    groups[key].append((len(v["case"].get("src", "")), f, diff, t.get("err_text", "") if isinstance(t, dict) else ""))
print(len(groups), "classes")
for k, items in sorted(groups.items(), key=lambda kv: -len(kv[1]))[:limit]:
    items.sort()
    print(f"\n=== {len(items)}x  {k}\n    smallest: {items[0][1]}\n    tsrun: {items[0][2][0][:200]}\n    node : {items[0][2][1][:200]}\n    err  : {items[0][3][:150]}")
