#!/usr/bin/env python3
"""tools/integrate.py <ID> — integrate a check built in /work/<ID>: copy props files, regress files, merge
known-findings fragment (re-mapping commit hashes by subject after cherry-pick), manifest entry, registry."""
import json, re, subprocess, sys, os, shutil, glob
ID = sys.argv[1]; low = ID.lower()
W = f"/work/{ID}"
# 1. props files
for f in glob.glob(f"{W}/verif/harness/src/props/{low}*"):
    dst = f"/verif/harness/src/props/{os.path.basename(f)}"
    if os.path.isdir(f):
        shutil.rmtree(dst, ignore_errors=True); shutil.copytree(f, dst)
    else:
        shutil.copy(f, dst)
# 2. regress
os.makedirs(f"/verif/regress/{ID}", exist_ok=True)
for f in glob.glob(f"{W}/verif/regress/{ID}/*.json"):
    shutil.copy(f, f"/verif/regress/{ID}/")
# 3. findings
out = subprocess.check_output(['git', '-C', f'{W}/repo', 'log', '--format=%h %s'], text=True)
old2subject = {l.split(' ', 1)[0]: l.split(' ', 1)[1] for l in out.splitlines()}
new = subprocess.check_output(['git', '-C', '/repo', 'log', '--format=%h %s'], text=True).splitlines()
def newhash(subj):
    for l in new:
        if l.split(' ', 1)[1] == subj: return l.split()[0]
kf = json.load(open('/verif/known_findings.json'))
fp = f"{W}/known_findings.fragment.json"
if os.path.exists(fp):
    for e in json.load(open(fp)):
        c = e.get('commit')
        if c:
            key = next((k for k in old2subject if k.startswith(c) or c.startswith(k)), None)
            if key:
                nh = newhash(old2subject[key])
                if nh:
                    e['what'] = e['what'].replace(c, nh); e['commit'] = nh
                else:
                    print("WARNING: no commit in /repo with subject", old2subject[key])
        kf = [x for x in kf if x['id'] != e['id']]; kf.append(e)
        print(e['id'], e['status'], e.get('commit'), e.get('gate') or e.get('gates'))
    json.dump(kf, open('/verif/known_findings.json', 'w'), indent=1)
# 4. manifest entry
src = open(f'{W}/verif/tools/mkmanifest.py').read()
m = re.search(r'( "%s": \(.*?\),\n)(?= "C|\})' % ID, src, re.S)
dst = open('/verif/tools/mkmanifest.py').read()
if m and f'"{ID}": (' not in dst:
    i = dst.index('}\n\nNOT_YET')
    dst = dst[:i] + m.group(1) + dst[i:]
    open('/verif/tools/mkmanifest.py', 'w').write(dst)
elif not m:
    print("WARNING: no manifest entry found for", ID)
# 5. registry: every .rs file / directory in props/ is a module; cNN modules are properties
files = sorted(os.path.basename(f)[:-3] for f in glob.glob('/verif/harness/src/props/*.rs') if not f.endswith('mod.rs'))
dirs = sorted(os.path.basename(d) for d in glob.glob('/verif/harness/src/props/*') if os.path.isdir(d))
mods = sorted(set(files) | set(dirs))
props = [m for m in mods if re.fullmatch(r'c\d+', m)]
body = "use crate::core::Property;\n\n" + "".join(f"pub mod {m};\n" for m in mods)
body += "\npub fn all() -> Vec<&'static dyn Property> {\n    vec![" + ", ".join(f"&{m}::{m.upper()}" for m in props) + "]\n}\n\n"
body += "pub fn lookup(id: &str) -> Option<&'static dyn Property> {\n    all().into_iter().find(|p| p.id() == id)\n}\n"
open('/verif/harness/src/props/mod.rs', 'w').write(body)
print("integrated", ID)
