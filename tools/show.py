#!/usr/bin/env python3
import json, sys
v = json.load(open(sys.argv[1]))
src = v["case"].get("src", "")
i = src.find("function __t(")
body = src[src.find("\n", i) + 1:] if i >= 0 else src
print(body)
o = v.get("observed", {})
print("--- tsrun:", json.dumps(o.get("tsrun"))[:600])
print("--- node :", json.dumps(o.get("node"))[:600])
