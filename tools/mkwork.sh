#!/bin/bash
# tools/mkwork.sh <ID>: private work copy for building one property check in isolation:
#   /work/<ID>/verif  (copy of /verif without target/.git), /work/<ID>/repo (clone of /repo HEAD)
set -e
ID="$1"
mkdir -p /work/$ID
rm -rf /work/$ID/verif /work/$ID/repo
rsync -a --exclude target --exclude target-asan --exclude .git --exclude replays /verif/ /work/$ID/verif/
git clone -q /repo /work/$ID/repo
sed -i "s#path = \"/repo\"#path = \"/work/$ID/repo\"#" /work/$ID/verif/harness/Cargo.toml
echo "work copy ready: /work/$ID/verif (harness depends on /work/$ID/repo)"
