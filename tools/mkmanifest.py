#!/usr/bin/env python3
"""Regenerates /verif/MANIFEST.json from the table below (run after changing what is claimed)."""
import json, os, subprocess
ROOT = os.path.dirname(os.path.dirname(os.path.abspath(__file__)))

def hook_commits():
    try:
        out = subprocess.check_output(["git", "-C", "/repo", "log", "--format=%h %s"], text=True)
        return [l.split()[0] for l in out.splitlines() if "verif-hooks" in l]
    except Exception:
        return []

CHECKS = {
 # id: (category, text, level_note, technique, design_ref)
 "C18": ("exploration",
         "Exhaustive enumeration of every (specifier, importer) pair up to 5 (quick) / 7 (thorough) segments over the property's alphabet plus seeded random long paths and metamorphic respellings, each judged against an independent reference resolver and the canonical-form predicates (absolute, no '.', '..', empty segment, no trailing slash, fixed point). Exhaustive inside the bound, sampled beyond it.",
         "Trusted: the 30-line reference resolver in harness/src/props/c18.rs (written from the property text). One-segment specifiers '.'/'..' (docs and code disagree) and relative-base '..' underflow are counted, not judged.",
         "exhaustive enumeration + property-based random generation (proptest choice tape) against a reference model",
         "§10 C18"),
 "C09": ("exploration",
         "Seeded random acyclic module graphs (2-6 modules quick, 2-8 thorough) over named/default/namespace/side-effect imports, `export {x as y} from`, `export * from`, `export * as ns from`, diamonds, eight equivalent spellings per path, directories up to 3 deep and importers directly under '/', live counters read directly, through namespaces and through re-exports; each graph is loaded on fresh interpreters under 4 host supply schedules (batched/one-at-a-time/partial, request/reversed/permuted order, duplicate re-supply) and judged against a graph model (closed-form values and exports), a structural oracle on every NeedImports list and on the load log, and schedule-independence of result and exports. Sampled, not exhaustive.",
         "Trusted: the graph model and the reference path resolver in harness/src/props/c09.rs; the import relation scanned from the generated source texts. Early supply of not-yet-requested modules is outside the generated domain (provide_module documents only pending imports); VERIF_C09_EARLY=1 adds it for probing.",
         "property-based random generation (proptest choice tape) against a reference model + metamorphic comparison across host schedules",
         "§10 C09"),
 "C20": ("exploration",
         "Programs are emitted token by token through a layout engine that records every token's (line, column) extent; a run-time or syntactic fault is planted at a marked token range under a call chain of depth 0..6 (quick) / 0..12 (thorough) over 16 kinds of call links, 1..3 modules and 16 embeddings, and the text between any two tokens (newlines, indentation, comments, CRLF, BOM, wide characters) is chosen by the tape. Every reported position must lie on a token of the faulting expression / the call expression of its frame, the trace must list exactly the active calls innermost first with the generator's names and files, a SyntaxError must point into the offending token, and the printed report must agree with the structured one. An enumerated grid (link kind x fault x embedding, caller x callee, syntactic fault x wrapper / context) runs on every seed.",
         "Trusted: the 15-line position bookkeeping of the layout engine (Pen::put) and the by-construction choice of the offending token. Errors that carry no location or an empty stack (user throw, errors passing through try/finally, ThrownValue from module evaluation) are counted as unjudged. User code entered from natives (callbacks, getters, call/apply) is excluded by gate C20-native-callback-frames while that finding is open. Lone CR, U+2028/2029 line ends and nested '/*' inside block comments are outside the generated domain.",
         "property-based random generation (proptest choice tape) with a closed-form oracle computed by the generator + enumerated grid",
         "§10 C20"),
 "C05": ("exploration",
         "Every case is one source text run through Parser::parse_program+Compiler::compile_program (all cases) and Interpreter::prepare as script / as module / provide_module (1 generated case in 4, all pinned and deep cases) on a thread with a fixed 8 MiB stack, the H2 parser work limit armed at 64+40*len+4*len^2. Sampled: bytes->lossy UTF-8, valid UTF-8 over a pool with every line terminator/BOM/astral characters, token soup over a 350-item JS/TS vocabulary, a template grammar (expr/stmt/member/type/pattern) with injected glitches, 1-3 token mutations of 32 embedded valid programs, random composites of nesting wrappers. Enumerated: every token prefix / single-token deletion / duplication of the corpus; 237 nesting and length families at every n in 0..=320, their doubling series n=8..1024 (ratio w(2n)/w(n)<=5), the acceptance boundary of each family (deepest legal tree through compiler and destructors), and deep probes n=2048..20000 (thorough: ..100000), one case per (family,n) so a dead worker is attributed. Thorough tier adds a coverage-guided libFuzzer campaign (fuzz/fuzz_targets/fuzz_prepare.rs) with the same in-target oracle.",
         "Trusted: H2 counts tokens produced and parser advances (byte-level work inside one token and compile time are not counted; they are covered only by the watchdog, which is never a verdict). Accept/reject correctness is not judged (C03/C01); the only pinned acceptance is the 32-program seed corpus (regress/C05/corpus-accepted.json). Polynomial bound verified on the generated sizes only.",
         "property-based random generation (proptest choice tape) + enumerated families/series/boundaries + crash containment by supervisor/journal + coverage-guided fuzzing (thorough)",
         "§10 C05"),
 "C16": ("exploration",
         "Seeded random generation (proptest choice tape) of JSON documents (depth<=6, all Unicode scalar values and every escape spelling in strings and keys, special/index-like/duplicate keys, integers to 2^53, doubles from random bits, long decimal expansions, exact rounding ties), of invalid texts (22 planted defect kinds) and of small programs building acyclic and cyclic value graphs; plus fixed extremes (depth 100..1000, width 10^4, 10^5-char strings, number families) and an exhaustive sweep of every Unicode scalar value as string content and key, raw and escaped. Each document crosses the boundary on every path (create_from_json, JSON.parse, JSON.stringify with 6 indents, js_value_to_json, exported value, tsrun_json_parse/stringify) and is compared with the generator's tree, with an in-script walker using ordinary reads, and through an independent strict JSON parser with exact numbers. Sampled, not exhaustive, except the Unicode sweep.",
         "Trusted: Rust's str::parse::<f64>; the strict JSON parser and the ES serialisation model in harness/src/props/c16/ (the latter cross-checked against node on every graph case); serde_json in the harness only for well-formedness. Outside the domain: lone-surrogate escapes, number tokens beyond the double range, revivers/replacers, layout of indented output, key order. Open known findings exclude by construction: JSON.parse of texts nested >= 128 levels, user toJSON methods and getters in JSON.stringify.",
         "property-based random generation (proptest choice tape) + exhaustive Unicode sweep against the generator's model, an independent parser and a reference engine",
         "§10 C16"),
 "C02": ("exploration",
         "Seeded random programs from the typed grammar generator (full profile: allocation-heavy natives, callbacks, getters, generators, classes, Map/Set, destructuring, spread) are each run with collection disabled and under 11 collection schedules (GC thresholds 1,2,3,5,7,100; host-forced collect() after every 1st,2nd,3rd,7th,31st step) plus a host read-back variant (the host holds the completion value across allocations, a second program and forced collections, then serialises it). Oracle: identical completion and console output in every run, and zero stale-handle events from the Gc generation stamp (hook H1), which detects use of a swept or re-used slot even when the value read happens to look right. Sampled, not exhaustive.",
         "Trusted: the run with collection disabled as reference (same engine, so evaluation defects cancel); hook H1 (generation stamp in Gc/GcBox). A missing guard is only exposed if an allocation falls inside the unguarded window of a generated shape.",
         "property-based random program generation (proptest choice tape) + metamorphic comparison across GC schedules + execution monitor",
         "§10 C02"),
 "C15": ("exploration",
         "Exhaustive enumeration of the structured double families (2^e and 10^e for every exponent with ±1/±2 ulp neighbours, every binary exponent x boundary mantissas, all subnormals with <= 2 set bits, integer edges around 2^31/2^32/2^53/10^21, decimal rounding ties and shortest-digit ties, every digit/radix argument) and of enumerated text families (grammar forms, invalid forms, 0x/0o/0b integers up to 100 digits incl. ties, exact binary midpoints as decimal texts), plus seeded random 64-bit patterns and texts (quick ~3e6, thorough ~7e7 evaluations). Every evaluation is one (input, conversion) pair at the Rust entry points or inside a program (String, template, keys, console.log, JSON.stringify, bitwise operators, toFixed/toPrecision/toExponential/toString(radix), Number, unary +, parseFloat, parseInt, ==, literals) judged against an independent reference (ryu digits + ES layout, exact BigUint arithmetic). Exhaustive inside the families, sampled beyond.",
         "Trusted: harness/src/props/numref.rs + bigint.rs (self-tested), ryu cross-checked with core::fmt, str::parse verified by an exact rational predicate. Two open findings are excluded by construction and counted: toString(radix != 10) of non-integers, JSON.stringify number notation for |x| >= 2^53 and 1e-6 <= |x| < 1e-5. The check demands correct rounding beyond 20 significant digits, where ECMA-262 would tolerate the neighbour.",
         "exhaustive enumeration of structured families + property-based random generation (proptest choice tape) against a reference model; node as secondary oracle on samples",
         "§10 C15"),
 "C13": ("exploration",
         "Model-based testing of the collector through the public Heap/Guard/Gc API under AddressSanitizer: (1) breadth-first enumeration over abstract model states (<=3 live guards, <=4 objects, <=2 handles/links per object) from the empty heap (depth 5 quick / 7 thorough) and four start configurations (depth 4-6 quick / 5-8 thorough), every (state, op) pair executed as its own history on a fresh heap; (2) a slot-recycling family: stale handles kept while their slot is recycled n times (n around 2^8 and 2^16, up to 131072) and then used against the slot's live tenant; (3) seeded random histories of up to 10^4 operations with thousands of objects crossing the 256-slot chunk and 16-entry guard-pool boundaries. After every operation the payload and links of every model-reachable object are compared, after every collection stats().live_objects == |reachable| and pooled+live==total, and a slot may be handed out again only if its previous tenant was unreachable. Exhaustive inside the bound modulo abstract-state de-duplication, sampled beyond it.",
         "Trusted: the reference model in harness/src/props/c13.rs, AddressSanitizer + debug assertions as memory-safety monitor. Stale handles are only dropped, cloned, guarded and unguarded (never borrowed); borrowing a handle after the heap was dropped is outside the domain.",
         "exhaustive bounded enumeration + property-based random generation (proptest choice tape) against a reference model, AddressSanitizer build",
         "§10 C13"),
 "C01": ("exploration",
         "Differential testing against the reference engine the property names: seeded random programs from the typed grammar generator progen (clean profile: expressions over every operator x operand-type pair the grammar admits, control flow incl. try/catch/finally with every completion type, labelled jumps, switch, closures, hoisting, classes, destructuring, generators, Map/Set and ~150 pinned library entries with index-like argument classes NaN/-0/negative/fractional/out-of-range/undefined/missing) are run on tsrun and on node (fresh strict-mode vm context, identical text incl. the canonical printer); compared: printed completion value, console lines, error class. Productions matching the gate of an open known finding are excluded by construction and counted; ~45 genuine defects found this way were repaired (fix: commits) and are pinned as regressions. Sampled, not exhaustive.",
         "Trusted: node v20 as the ECMAScript reference for the generated subset; the canonical printer's own dependencies (typeof, Array.isArray, hasOwnProperty.call, Object.keys, JSON.stringify(string), String(number), forEach). Only exactly specified behaviour is generated (no transcendental Math, no locale functions, consistent sort comparators, exponentiation on small integers only). If node is absent the differential part reports zero evaluations (never a violation).",
         "property-based random program generation (proptest choice tape, shrinking) + differential testing against a reference engine (node)",
         "§10 C01"),
 "C14": ("exploration",
         "Seeded random self-contained programs (one IIFE, no global writes, canonical printer inside) from progen biased to closures, generators (exhausted / abandoned / closed early), classes, Map/Set, destructuring, exceptions and uncaught errors are each run 8 times on one interpreter with collect() after every run; oracle: gc_stats().live_objects identical from the 3rd run on, call_depth()==0 and the H4 quiescence snapshot clean after every run, identical end of every run. Sampled, not exhaustive.",
         "Trusted: GcStats.live_objects as reported by the heap after collect(); hook H4. Modules (immortal namespaces) are outside the domain. The constructs of the open finding C14-yield-in-block-leaks-scope are excluded by construction.",
         "property-based random program generation (proptest choice tape) + invariant over a repetition history (live-object count, quiescence)",
         "§10 C14"),
 "C11": ("exploration",
         "Stateful histories on ONE interpreter: 1-4 earlier runs whose state lives in nested scopes (12 wrapper kinds incl. blocks, calls, constructors, try/finally, generator bodies, native callbacks; depth 1-8), run as script or module and ended by completion, by an uncaught error at the innermost level, or by abandonment after a tape-chosen number of steps, or - one run in three - host-interacting module runs abandoned while parked in Suspended (awaiting 1-3 host orders in 6 nested shapes, 0..n answered) or in NeedImports (imports never supplied, dependency that throws after its first exports, missing/throwing deeper dependency, main body throwing after an export); followed by observer programs (typeof of every name the dead runs declared, fresh declarations reusing them, a random progen program) and three structured module observers (exports; namespace import + export *; two awaited orders with a late answer to a dead order arriving) whose result kinds, output and export tables (get_export_names/get_export) are compared too. Oracle: observer outcomes and bookkeeping (call_depth, H4 quiescence) equal those of a fresh interpreter that only performed the deliberate global writes; an ended run leaves the interpreter quiescent. Sampled, not exhaustive.",
         "Trusted: hook H4 (read-only snapshot); top-level declarations of earlier script runs are deliberate global effects and are replayed on the fresh interpreter; the value of the deliberate marker is read back from the used interpreter.",
         "stateful property-based testing (history of runs from a proptest choice tape) against a fresh-interpreter reference",
         "§10 C11"),
 "C12": ("exploration",
         "Two seeded random programs with an address- and order-sensitive epilogue are traced (step count, terminal result with payload, console lines): solo, three times after different perturbations (junk allocation, an abandoned interpreter, a failed run, several live interpreters dropped out of order), interleaved step-wise with each other in one thread under a tape-chosen schedule, in four OS threads at once (every 8th case) and in a separately spawned process (every 16th case); all traces must be identical. Sampled, not exhaustive.",
         "Trusted: fixed time/random providers. Thread interleavings are not owned by the harness (smoke test only); cross-process comparison covers a 1/16 sample.",
         "property-based random program generation + metamorphic comparison across repetitions, interleavings, threads and processes",
         "§10 C12"),
 "C07": ("exploration",
         "Seeded module programs await host orders inside 1-5 async segments drawn from 38 syntactic-position templates (try/finally with pending return/throw, catch, loops, for-of over arrays and generators, methods and arrows using this, super calls, nested async calls, destructuring defaults, template literals, call arguments, conditional/logical operands, block-scoped shadowing + closures, switch, labelled jumps, Promise.all/then over host promises, object responses), and from a compositional family (8 pending completions x 6 suspension sites inside finally blocks, incl. callee-thrown objects, labelled jumps and callees with their own try/finally), each reading live state after the await; handler templates register 3-4 then/catch/finally handlers on pending host promises that the host later resolves or rejects; the host forces collect() at schedule-chosen suspensions. Oracles: (1) inline-value relation - the same program with `order` replaced by an in-program stub returning the same values synchronously gives the same value and console output; (2) schedule independence over 4 host schedules (spurious steps, settle order and batching of outstanding host promises, GC thresholds 1/100); (3) zero stale-handle events (H1). Sampled, not exhaustive.",
         "Trusted: order() is a blocking syscall suspending the whole VM, so the sequential inline-value relation is exact; promise reactions run synchronously by design. Position templates are a fixed list; real promise-job ordering is not modelled (the check asserts only value, output and errors).",
         "property-based generation (proptest choice tape) + metamorphic relations (suspend vs inline value; host schedule permutations) + execution monitor",
         "§10 C07"),
 "C04": ("exploration",
         "Seeded random generation (proptest choice tape) of TypeScript programs from a small declaration AST: enum blocks (auto-numbered, numeric-literal incl. negative/fractional/large, constant expressions over + - * / % ** << >> >>> & | ^ ~ with bare and qualified references to earlier members and to other (const) enums, computed non-constant numeric members incl. member references inside calls and conditionals, string/template/string-reference members, duplicate values, quoted non-identifier names, repeated `enum E` blocks, const enums, enums local to functions, blocks and loop bodies, shadowing), namespace trees (nested, dotted and merged blocks, `module` keyword, exported const/let/var/function/class/enum/namespace/interface, non-exported locals, references to exports of the same block, other blocks, later blocks and enclosing namespaces, mutation of exported variables from inside and outside, nested namespaces re-opened in later parent blocks, namespaces merged with a function, class or enum) and class families (constructor parameter properties in all seven modifier combinations with defaults, optional, plain and rest parameters, with and without extends/super incl. a statement before super(...) and a derived property re-declaring a base one, abstract classes with abstract methods/properties/accessors and concrete subclasses), interleaved with uses (forward/reverse lookups by literal, member and string key, Object.keys/values/entries/getOwnPropertyNames, for-in, JSON.stringify, typeof/instanceof, in/hasOwnProperty, spread/Object.assign, descriptors, identity and comparison, switch, passing the object to functions, writes/deletes/defineProperty/freeze through `as any`, namespace function calls, instance own-property order, prototype contents) and optionally a progen core program. Each program is rendered twice from the same AST - as TypeScript and as the JavaScript tsc is specified to emit (enum/namespace IIFEs, N.x rewriting, this.x = x after super(...), abstract erased, const enum members inlined as folded constants) - and tsrun(TypeScript) must equal node(emit) and tsrun(emit) in printed completion value, console lines and error class. Sampled, not exhaustive.",
         "Trusted: node v20 as reference engine for the emitted JavaScript; the desugarer in harness/src/props/c04gen.rs as the statement of tsc's emit (no tsc in the sandbox: only handbook-documented constructs whose emit does not depend on the type checker or compiler options; constant folding re-implemented with IEEE doubles and cross-checked against node through auto-numbered successors). Outside the domain: uninitialised field declarations and field initialisers combined with parameter properties (emit order depends on useDefineForClassFields), direct `new` of an abstract class, writes to enum members before later enum declarations (tsc folds constants), `declare enum`, `export enum` in modules, computed members in enums with string members (TS2553), bare references to members of an earlier block of the same enum, static inheritance between class constructors (C01). One open known finding is excluded by construction and counted: JSON.stringify of objects with two or more members (sorted key order). If node is absent only the self-differential part runs.",
         "property-based random program generation (proptest choice tape, shrinking) + differential testing against a reference engine (node) and self-differential testing against a reference desugarer",
         "§10 C04, Appendix B"),
}

NOT_YET = {}

def main():
    props = [json.loads(l) for l in open(os.path.join(ROOT, "properties.jsonl"))]
    checks = []
    na = []
    for p in props:
        pid = p["id"]
        if pid in CHECKS:
            cat, text, note, tech, ref = CHECKS[pid]
            checks.append({
                "property_id": pid,
                "quick_cmd": f"./check {pid} --tier quick",
                "thorough_cmd": f"./check {pid} --tier thorough",
                "evidence_file": f"/verif/evidence/{pid}.json",
                "replay_cmd_template": f"./check {pid} --replay {{path}}",
                "engine": "verif-harness",
                "level_claimed": {"category": cat, "text": text, "design_ref": ref},
                "level_note": note,
                "technique": tech,
            })
        else:
            na.append({"property_id": pid, "reason": NOT_YET.get(pid, "check not built yet in this session (planned, see DESIGN.md §12); not claimed until its check exists and is quiet on the unchanged tree")})
    m = {
        "version": 1,
        "setup_cmd": "cd /verif/harness && CARGO_NET_OFFLINE=true cargo build --release --offline && RUSTFLAGS=-Zsanitizer=address CARGO_NET_OFFLINE=true cargo +nightly build --release --offline --target x86_64-unknown-linux-gnu --target-dir /verif/target-asan",
        "hooks": {
            "guard": "verif-hooks",
            "enable": "cargo feature `verif-hooks` of the tsrun crate; the harness (/verif/harness) depends on /repo by path with features [verif-hooks, c-api], so every check rebuilds /repo's working tree with hooks on",
            "baseline_off_cmd": "cd /repo && cargo test --workspace --no-fail-fast --offline",
            "source_commits": hook_commits(),
            "add_only": True,
        },
        "engines": [{"name": "verif-harness", "path": "/verif/harness", "serves_properties": sorted(CHECKS.keys()),
                     "kind_free_text": "Rust binary: supervisor + 16 worker processes per check; proptest-generated choice tapes; reference models; node as reference engine; journal-based crash recovery"}],
        "checks": checks,
        "not_applicable": na,
        "notes": "Entry point ./check <ID> --tier quick|thorough [--replay FILE]. Exit 0 held / 1 VIOLATION / 2 infrastructure or inconclusive. known_findings.json lists fixed and open findings; regress/<ID>/*.json are replayed at the start of every check.",
    }
    json.dump(m, open(os.path.join(ROOT, "MANIFEST.json"), "w"), indent=1)
    print("wrote MANIFEST.json:", len(checks), "checks;", len(na), "not claimed")

if __name__ == "__main__":
    main()
