#!/usr/bin/env python3
"""Turns a libFuzzer artifact of fuzz_prepare (raw bytes) into a C05 replay file.
usage: c05_artifact_to_replay.py <artifact> <out.json>   ; then ./check C05 --replay <out.json>"""
import json, sys
data = open(sys.argv[1], 'rb').read()
case = {"kind": "text", "dom": "libfuzzer", "routes": 15, "src": data.decode('utf-8', errors='replace')}
json.dump({"property": "C05", "kind": "libfuzzer", "case": case,
           "message": "fuzz_prepare artifact " + sys.argv[1], "how_to_run": "./check C05 --replay <this file>"},
          open(sys.argv[2], 'w'), ensure_ascii=False, indent=1)
