#!/bin/bash
# tools/seedtest.sh <patch.diff> <check-id> [more check ids...]
# Applies a seeded change to /repo's working tree, runs the quick tier of the given checks, and reverts.
# Prints one line per check: <id> exit=<code> <summary line>; never leaves /repo dirty.
set -u
PATCH="$1"; shift
cd /repo || exit 2
if ! git diff --quiet; then echo "REFUSING: /repo has uncommitted changes"; exit 2; fi
if ! git apply --check "$PATCH" 2>/dev/null; then
  if git apply --3way --check "$PATCH" 2>/dev/null; then MODE="--3way"; else echo "PATCH-DOES-NOT-APPLY $PATCH"; exit 3; fi
else MODE=""; fi
git apply $MODE "$PATCH" || { echo "PATCH-APPLY-FAILED"; git reset -q --hard HEAD; exit 3; }
for id in "$@"; do
  out=$(cd /verif && timeout 3000 ./check "$id" --tier quick 2>&1)
  code=$?
  echo "$id exit=$code $(echo "$out" | grep -E "^$id tier=" | head -1)"
  echo "$out" | grep -E "VIOLATION|detail:" | head -4 | sed 's/^/    /' | cut -c1-260
done
git reset -q --hard HEAD; git status --short | head -3
