#!/usr/bin/env python3
"""tools/reseed.py <seeded-dir-name> [check ids...] - re-run the quick tier of the given checks (default: the property's own)
against /repo with seeded/<name>/patch.diff applied (tools/seedtest.sh) and record the outcome in meta.json under
checks_run (the first outcome, if different, is kept under checks_run_before_strengthening)."""
import json, subprocess, sys
name = sys.argv[1]; d = f"/verif/seeded/{name}"
checks = sys.argv[2:] or [name.split('-')[0]]
meta = json.load(open(f"{d}/meta.json"))
out = subprocess.run(["bash", "/verif/tools/seedtest.sh", f"{d}/patch.diff"] + checks, capture_output=True, text=True).stdout
print(out)
old = meta.get("checks_run", {})
new = dict(old)
for l in out.splitlines():
    p = l.split()
    if p and p[0] in checks and len(p) > 1 and p[1].startswith("exit="):
        new[p[0]] = {"exit": int(p[1][5:]), "summary": " ".join(p[2:])[:300], "caught": p[1] == "exit=1"}
if "PATCH-DOES-NOT-APPLY" in out:
    print("patch does not apply"); sys.exit(3)
if new != old:
    meta.setdefault("checks_run_before_strengthening", {k: v for k, v in old.items() if new.get(k, {}).get("caught") != v.get("caught")})
meta["checks_run"] = new
json.dump(meta, open(f"{d}/meta.json", "w"), indent=1)
print(name, {k: v["caught"] for k, v in new.items()})
