#!/usr/bin/env python3
"""tools/addfinding.py <finding-id> <property> <gate-or-> <status> <what> <case-json>
Creates regress/<prop>/<finding-id>.json and appends/updates the entry in known_findings.json."""
import json, sys, os
fid, prop, gate, status, what, case = sys.argv[1:7]
extra = json.loads(sys.argv[7]) if len(sys.argv) > 7 else {}
root = os.path.dirname(os.path.dirname(os.path.abspath(__file__)))
os.makedirs(f"{root}/regress/{prop}", exist_ok=True)
rel = f"regress/{prop}/{fid}.json"
json.dump({"property": prop, "expect": "fail" if status == "open" else "pass", "note": what, "case": json.loads(case)}, open(f"{root}/{rel}", "w"), indent=1)
kf = json.load(open(f"{root}/known_findings.json"))
kf = [e for e in kf if e["id"] != fid]
e = {"id": fid, "property": prop, "status": status, "what": what, "repro": rel}
if gate != "-":
    e["gates"] = gate.split(",")
e.update(extra)
kf.append(e)
json.dump(kf, open(f"{root}/known_findings.json", "w"), indent=1)
print("added", fid)
